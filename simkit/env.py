"""Process bootstrap shared by every check (DESIGN.md sections 2 and 9).

* chython is imported from the working tree of the repository (``VERIF_REPO``, default
  ``/repo``), never from an installed copy;
* the CachedMethods shim goes first on ``sys.path``;
* byte-code goes to a private scratch directory so nothing is written into the repository
  and no stale byte-code of another tree can be used;
* C11/C13 processes run under ``PYTHONHASHSEED=0`` (their *traces* must replay; whether
  results depend on the hash seed is C19's subject).
"""
import os
import shutil
import sys

VERIF = os.path.dirname(os.path.dirname(os.path.abspath(__file__)))
REPO = os.environ.get('VERIF_REPO', '/repo')
SHIM = os.path.join(VERIF, 'shim')
SCRATCH = os.environ.get('VERIF_SCRATCH') or os.path.join(VERIF, '.scratch')
PYTHON = sys.executable


def scratch_dir(name: str) -> str:
    p = os.path.join(SCRATCH, name)
    os.makedirs(p, exist_ok=True)
    return p


def rm_scratch(path: str):
    shutil.rmtree(path, ignore_errors=True)


def child_env(hashseed='0', pycache=None, extra=None):
    env = dict(os.environ)
    env['PYTHONHASHSEED'] = str(hashseed)
    env['PYTHONPATH'] = os.pathsep.join([SHIM, REPO, VERIF])
    env['VERIF_REPO'] = REPO
    env['PYTHONDONTWRITEBYTECODE'] = '1' if pycache is None else ''
    if pycache is None:
        env['PYTHONDONTWRITEBYTECODE'] = '1'
        env.pop('PYTHONPYCACHEPREFIX', None)
    else:
        env.pop('PYTHONDONTWRITEBYTECODE', None)
        env['PYTHONPYCACHEPREFIX'] = pycache
    env['VERIF_BOOTSTRAPPED'] = '1'
    if extra:
        env.update(extra)
    return env


def bootstrap(hashseed='0'):
    """Re-exec the current script once with a pinned hash seed and a clean import path."""
    if os.environ.get('VERIF_BOOTSTRAPPED') != '1' or os.environ.get('PYTHONHASHSEED') != str(hashseed):
        pyc = os.path.join(SCRATCH, 'pyc-%d' % os.getpid())
        os.makedirs(pyc, exist_ok=True)
        env = child_env(hashseed, pycache=pyc, extra={'VERIF_PYC_OWNER': str(os.getpid())})
        os.execve(PYTHON, [PYTHON] + sys.argv, env)
    for p in (VERIF, REPO, SHIM):
        if p in sys.path:
            sys.path.remove(p)
        sys.path.insert(0, p)


def cleanup_pyc():
    pyc = os.environ.get('PYTHONPYCACHEPREFIX')
    if pyc and pyc.startswith(SCRATCH):
        shutil.rmtree(pyc, ignore_errors=True)
