"""Seed derivation, fork runner, ddmin, evidence writer, known-findings file."""
import faulthandler
import hashlib
import json
import multiprocessing
import os
import random
import signal
import sys
import time
import traceback
from concurrent.futures import ProcessPoolExecutor, as_completed, wait, FIRST_COMPLETED

from . import env

EXIT_OK, EXIT_VIOLATION, EXIT_HARNESS = 0, 1, 2


class HarnessError(Exception):
    """The simulator itself went wrong (never reported as a violation, never as success)."""


def base_seed() -> int:
    try:
        return int(os.environ.get('VERIF_SEED', '0'))
    except ValueError:
        return 0


def derive_seed(base: int, prop: str, i) -> int:
    return int(hashlib.sha256(f'{base}/{prop}/{i}'.encode()).hexdigest()[:16], 16)


class Streams:
    """Three independent PRNG streams from one integer."""

    def __init__(self, seed: int):
        self.seed = seed
        self.workload = random.Random(derive_seed(seed, 'workload', 0))
        self.schedule = random.Random(derive_seed(seed, 'schedule', 0))
        self.fault = random.Random(derive_seed(seed, 'fault', 0))


def digest(obj) -> str:
    return hashlib.sha1(json.dumps(obj, sort_keys=True, default=repr).encode()).hexdigest()


# ---------------------------------------------------------------------------------------------
# fork runner

def _worker_init(hang_s):
    faulthandler.enable()
    signal.signal(signal.SIGINT, signal.SIG_IGN)


class RunTimeout(BaseException):
    """Soft per-run wall-clock limit (a run that merely is slow is set aside and counted, never a result)."""


def _alarm(signum, frame):
    raise RunTimeout()


SOFT_TIMEOUT_S = 45


def _run_chunk(fn, idxs, hang_s):
    out = []
    try:
        signal.signal(signal.SIGALRM, _alarm)
        use_alarm = True
    except ValueError:       # not in the main thread
        use_alarm = False
    for i in idxs:
        faulthandler.dump_traceback_later(hang_s, exit=True)
        if use_alarm:
            signal.setitimer(signal.ITIMER_REAL, SOFT_TIMEOUT_S)
        try:
            out.append((i, fn(i)))
        except RunTimeout:
            out.append((i, {'slow_run': True, 'where': ''.join(traceback.format_stack(limit=3))[-300:]}))
        except HarnessError:
            out.append((i, {'harness_error': traceback.format_exc()}))
        except Exception:
            out.append((i, {'harness_error': traceback.format_exc()}))
        finally:
            if use_alarm:
                signal.setitimer(signal.ITIMER_REAL, 0)
            faulthandler.cancel_dump_traceback_later()
    return out


def run_pool(fn, indices, *, workers=None, chunk=20, wall_cap=None, hang_s=120, on_result=None):
    """Run fn(i) for i in indices in forked workers.  Returns (results, completed_all, harness_errors).

    fn must be a module-level callable (fork context: closures are fine too, nothing is pickled on
    the way in except the index chunk).  Stops submitting new chunks once wall_cap is exceeded."""
    workers = workers or int(os.environ.get('VERIF_WORKERS', '0')) or min(16, os.cpu_count() or 1)
    indices = list(indices)
    chunks = [indices[k:k + chunk] for k in range(0, len(indices), chunk)]
    results = {}
    errors = []
    t0 = time.time()
    ctx = multiprocessing.get_context('fork')
    completed_all = True
    if workers == 1:
        for c in chunks:
            if wall_cap and time.time() - t0 > wall_cap:
                completed_all = False
                break
            for i, r in _run_chunk(fn, c, hang_s):
                if 'harness_error' in r:
                    errors.append((i, r['harness_error']))
                results[i] = r
                if on_result and 'slow_run' not in r:
                    on_result(i, r)
        return results, completed_all, errors
    with ProcessPoolExecutor(max_workers=workers, mp_context=ctx, initializer=_worker_init, initargs=(hang_s,)) as ex:
        pending = set()
        it = iter(chunks)
        exhausted = False

        def submit_more():
            nonlocal exhausted, completed_all
            while not exhausted and len(pending) < workers * 2:
                if wall_cap and time.time() - t0 > wall_cap:
                    exhausted = True
                    completed_all = False
                    break
                try:
                    c = next(it)
                except StopIteration:
                    exhausted = True
                    break
                pending.add(ex.submit(_run_chunk, fn, c, hang_s))

        submit_more()
        while pending:
            done, _ = wait(pending, timeout=hang_s * 2 + 60, return_when=FIRST_COMPLETED)
            if not done:
                errors.append((-1, 'worker pool made no progress'))
                for f in pending:
                    f.cancel()
                break
            for f in done:
                pending.discard(f)
                try:
                    for i, r in f.result():
                        if 'harness_error' in r:
                            errors.append((i, r['harness_error']))
                        results[i] = r
                        if on_result and 'slow_run' not in r:
                            on_result(i, r)
                except Exception as e:  # worker died (BrokenProcessPool etc.)
                    errors.append((-1, f'worker failed: {e!r}'))
                    pending.clear()
                    exhausted = True
                    break
            submit_more()
    return results, completed_all, errors


# ---------------------------------------------------------------------------------------------
# minimiser

def ddmin(items, test, budget):
    """Classic ddmin over a list.  test(list) -> bool (True = still fails the same way).
    budget is a mutable [remaining] counter."""
    n = 2
    items = list(items)
    while len(items) >= 2 and budget[0] > 0:
        size = max(1, len(items) // n)
        subsets = [items[i:i + size] for i in range(0, len(items), size)]
        reduced = False
        for k in range(len(subsets)):
            if budget[0] <= 0:
                break
            comp = [x for j, s in enumerate(subsets) if j != k for x in s]
            budget[0] -= 1
            if comp and test(comp):
                items = comp
                n = max(n - 1, 2)
                reduced = True
                break
        if not reduced:
            if size == 1:
                break
            n = min(len(items), n * 2)
    # final single-step pass
    i = 0
    while i < len(items) and budget[0] > 0 and len(items) > 1:
        cand = items[:i] + items[i + 1:]
        budget[0] -= 1
        if test(cand):
            items = cand
        else:
            i += 1
    return items


# ---------------------------------------------------------------------------------------------
# known findings

def load_known(prop):
    path = os.path.join(env.VERIF, 'known_findings.json')
    if not os.path.exists(path):
        return []
    with open(path) as f:
        data = json.load(f)
    return [x for x in data if x.get('property') == prop and x.get('status') == 'known']


def match_known(known, vclass, op_kinds, extra=None):
    """A listed finding matches when the violation class matches one of its classes (exact string or
    prefix ending in '*') and every op kind of the minimised trace is in its allowed set while all of
    its required kinds are present."""
    for k in known:
        sig = k['signature']
        classes = sig['class'] if isinstance(sig['class'], list) else [sig['class']]
        ok = False
        for c in classes:
            if c.endswith('*'):
                ok = ok or vclass.startswith(c[:-1])
            else:
                ok = ok or vclass == c
        if not ok:
            continue
        req = set(sig.get('requires', []))
        allowed = sig.get('allowed')
        kinds = set(op_kinds)
        if not req <= kinds:
            continue
        if allowed is not None and not kinds <= set(allowed) | req:
            continue
        if 'detail_contains' in sig and (extra is None or sig['detail_contains'] not in extra):
            continue
        return k
    return None


# ---------------------------------------------------------------------------------------------
# evidence

def _out_base():
    # runs against another tree (VERIF_REPO: scratch worktrees of seeded breakages, bisecting) must not overwrite the
    # evidence and replay files of /repo itself
    if os.path.realpath(env.REPO) != '/repo':
        return env.scratch_dir('alt-out')
    return env.VERIF


def write_evidence(prop, payload):
    path = os.path.join(_out_base(), 'evidence', f'{prop}.json')
    os.makedirs(os.path.dirname(path), exist_ok=True)
    try:
        import jsonschema
        with open('/root/.vp/EVIDENCE.schema.json') as f:
            schema = json.load(f)
        jsonschema.validate(payload, schema)
    except ImportError:
        pass
    except FileNotFoundError:
        pass
    tmp = path + '.tmp'
    with open(tmp, 'w') as f:
        json.dump(payload, f, indent=1, sort_keys=True, default=repr)
        f.write('\n')
    os.replace(tmp, path)
    return path


def write_replay(prop, name, trace):
    d = os.path.join(_out_base(), 'replays')
    os.makedirs(d, exist_ok=True)
    path = os.path.join(d, f'{prop}-{name}.json')
    with open(path, 'w') as f:
        json.dump(trace, f, indent=1, sort_keys=True)
        f.write('\n')
    return path


def tier_from_env(default='quick'):
    return os.environ.get('VERIF_TIER', default)
