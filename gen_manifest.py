#!/usr/bin/env python3
"""Regenerates MANIFEST.json (kept in one place so that it stays valid)."""
import json

NA = {
 'C01': 'pure function of one molecule (numbering, insertion order and spelling are inputs); no schedule, clock, fault or interleaving for a simulator to control - its cache and hash-seed aspects are exercised under C13 and C19',
 'C02': 'pure function pair (SMILES write/read); the random-order writer PRNG only selects which of the quantified-over write orders is produced - input generation, not simulation',
 'C03': 'pure function of a string (SMILES reader language); nothing to schedule or fail',
 'C04': 'pure function of static valence tables and a local atom environment',
 'C05': 'pure functions (kekule/thiele); idempotence and confluence are relations between pure calls on one input',
 'C06': 'pure function of a graph (ring perception); the only stateful aspect, ring caches kept across edits, is exercised by the C13 simulation',
 'C07': 'pure function of (pattern, target); generator interleaving is fixed by the code, not by an environment',
 'C08': 'pure predicate semantics of query atoms; no time, I/O, concurrency or history',
 'C09': 'equivalence of two implementations over inputs (differential testing), and the compiled side cannot be built or imported in this sandbox (no Cython)',
 'C10': 'pure codec implemented only in Cython sources that cannot be built here (no Cython in any interpreter or wheelhouse); no real code can run',
 'C12': 'pure sign algebra over neighbour permutations',
 'C14': 'pure functions; conservation and idempotence are input-output relations',
 'C15': 'pure functions of the reaction (roles, identity, condensed graph)',
 'C16': 'pure function of (template, reactants)',
 'C17': 'pure functions of (molecule, parameters)',
 'C18': 'finite static data tables; deciding it is complete enumeration, with nothing to schedule or fail',
 'C20': 'pure function through an external toolkit (RDKit bridge)',
}

CHECKS = json.load(open('manifest_checks.json'))
claimed = {c['property_id'] for c in CHECKS}
for p, why in (('C11', 'claimed in DESIGN.md section 6; its check is not built yet at this commit'),
               ('C19', 'claimed in DESIGN.md section 7; its check is not built yet at this commit')):
    if p not in claimed:
        NA[p] = why

BASE = "cd /repo && /venv/bin/python -m pytest -ra -q -p no:cacheprovider --timeout=900 --continue-on-collection-errors"
m = {
 'version': 1,
 'setup_cmd': 'cd /verif && mkdir -p .scratch evidence replays && timeout 900 ./check selftest --quick',
 'hooks': {
  'guard': 'CHYTHON_VERIF',
  'enable': 'none needed: every seam is external (file objects are constructor arguments, module-level strftime/gettempdir/check_output are rebound by the harness, crash points come from sys.settrace, hash seed/ASLR/GC are process-level); no hook commit exists in /repo',
  'baseline_off_cmd': BASE,
  'source_commits': [],
  'add_only': True,
 },
 'engines': [
  {'name': 'simkit', 'path': 'simkit/', 'serves_properties': sorted(claimed),
   'kind_free_text': 'own seeded deterministic simulation kit: one integer -> workload/schedule/fault PRNG streams, JSON op-list traces as replay files, ddmin minimiser, fork process pool, fresh-interpreter replay confirmation'},
 ],
 'checks': CHECKS,
 'not_applicable': [{'property_id': k, 'reason': v} for k, v in sorted(NA.items())],
 'notes': 'Technique family: deterministic simulation with fault injection. chython is imported from the /repo working tree by path in fresh interpreters (nothing installed, private byte-code cache), behind a one-method shim for the incompatible CachedMethods 0.2.0 dependency (DESIGN 2.1). Exit codes: 0 held, 1 violation (VIOLATION line), 2 harness failure. Genuine defects found and repaired are listed as fixed in known_findings.json.',
}
json.dump(m, open('MANIFEST.json', 'w'), indent=1)
import jsonschema
jsonschema.validate(m, json.load(open('/root/.vp/MANIFEST.schema.json')))
print('MANIFEST.json ok:', sorted(claimed), 'n/a:', len(m['not_applicable']))
