"""C19 - identical results across processes, hash seeds, cache states and copies (DESIGN.md section 7).

The nondeterminism sources a simulator normally hides are the subject here, so the controller *chooses* them from the
seed: PYTHONHASHSEED, address-space layout (setarch -R / junk allocations), cyclic GC mode, first-use order of the
process-global rule tables and the interleaved schedule of load / observe / flush / copy events.  One execution = one
fresh interpreter running checks/c19_worker.py on a job file.  Oracle: every (molecule, observer) key has one digest
in all executions and all phases.
"""
import csv
import json
import os
import random
import shutil
import subprocess
import sys
import time
import traceback
from collections import Counter, defaultdict
from concurrent.futures import ThreadPoolExecutor

from simkit import core, env

PROP = 'C19'
WORKER = os.path.join(env.VERIF, 'checks', 'c19_worker.py')
CHEAP = ['str', 'fmt_h', 'fmt_A', 'fmt_m', 'fmt_a', 'fmt_ns', 'fmt_nsh', 'fmt_nsm', 'fmt_nb', 'fmt_nz', 'fmt_nx', 'fmt_Ahm', 'atoms_order', 'chiral_morgan', 'smiles_atoms_order', 'sssr',
         'atoms_rings_sizes', 'connected_components', 'linear_hash_set', 'morgan_hash_set', 'stereo_sets', 'labels', 'layout', 'mass']
MEDIUM = ['linear_fingerprint', 'morgan_fingerprint', 'automorphism', 'self_sub', 'self_sub_all', 'scoped_sub', 'kekule', 'thiele',
          'canonicalize', 'neutralize', 'morgan_hash_smiles', 'morgan_smiles_hash', 'linear_hash_smiles', 'linear_smiles_hash', 'clean_stereo', 'clean_isotopes', 'implicify_hydrogens', 'explicify_hydrogens']
EXPENSIVE = ['standardize', 'enumerate_kekule', 'enumerate_tautomers', 'canonicalize_log', 'standardize_log', 'neutralize_log',
             'standardize_charges_log', 'fix_resonance_log', 'implicify_hydrogens_log', 'enumerate_charged_forms', 'mcs', 'split',
             'remove_metals_log', 'remove_acids_log', 'split_metal_salts_log',
             'taut_live_np1', 'taut_live_np2', 'taut_live_np6', 'taut_live_p2', 'charged_live2']
N_SMARTS = 44
QRY_OBS = ['q_str', 'q_repr', 'q_atoms', 'q_bonds', 'q_len', 'q_match', 'q_match_all', 'q_match_fresh_copy', 'q_is_sub', 'q_copy_str']
# queries as inputs (strings, copies, match lists with the memoised plan): the SMARTS panel of the worker plus forms with every
# primitive the parser knows (D, h, r, !R, x, z, a, M, charge, isotope, mapping, stereo, bond lists, not-bonds, ring bonds, radicals)
QUERY_SMARTS = ['[C;D3]', 'C=O', 'c1ccccc1', '[N;h2]', 'C(=O)O', '[#6]-[#7]', 'c:n', '[O;D1]', 'S(=O)=O', 'N-C=O', '[C;r5]', 'C~C~C',
                '[N;a;h1]', '[#6,#7]-[#8]', '[C,N;D2]', '[#8,#16]=[#6]', '[#7,#8;h1]', '[F,Cl,Br]', '[A]C[A]N', '[A]1CN1', '[C,O]CN.[A]Cl',
                '[C;r5,r6;a]-;!@[C;h1,h2;z2,z4]', '[C;D2,D3;x1,x2]-,=[O,N;D1]', '[N+;D4]', '[O-]-[C;z2]', '[C;!R]-[C;r3,r4,r5,r6]',
                '[C:3]-[O:1]-[C:2]', '[C;h1:1](=O)-[N;D2,D3:2]', '[13C]', '[C;z1;h3]-[C;z2]=,:[C,N;z2]', 'C-;@C', 'C-,=;!@C', '[M]-Cl', '[M]~[O,N]',
                '[C@H](N)(C)C(=O)O', 'C/C=C/C', 'C/C=C\\C', '[C;D1]-[C;D2]-[C;D1] |^1:1|', '[A;h0]=[A;h0]', '[Cl,Br,I;D1]-[C;z1]-[C;z1]-[Cl,Br,I;D1]',
                '[S;D4](=O)(=O)(-N)-[C;a]', '[P]', '[O;h1]-[C;r6]-[C;r6]-[O;h1]', '[N;D1]#[C;D2]', '[C]=[C]-[C]=[O]', '[#6;a]:[#7;a;D3]', '[C,N,O;D3;r5]']
EXTRA_SMILES = [
    'C[C@H](N)C(=O)O', 'C[C@@H](O)[C@H](O)C', 'C/C=C/C', 'C/C=C\\Cl', 'CC=[C@]=CCl', 'C[C@H]1CC[C@@H](C)CC1', 'C[C@H]1C[C@@H]1C',
    'C[C@H](O)[C@H](O)[C@@H](C)O', 'C/C=C/[C@H](O)/C=C\\C', 'O[C@H]1C[C@@H](O)C1', 'C[C@H]1C[C@H](C)C[C@H](C)C1',
    'C1CC2CCC1C2', 'C1CC2CC1C2', 'C12(CCC1)CCC2', 'C1CC2CCCC2C1', 'C1CC2CCC1CC2', 'C1C2CC1C2', 'c1ccc2c(c1)ccc1ccccc12',
    'c1ccc2cc3ccccc3cc2c1', 'C1CC2CC3CC1CC(C2)C3', 'c1ccccc1c1ccccc1', '[Na+].[Cl-]', 'CC(=O)[O-].[NH4+]', 'C[N+](C)(C)C',
    'OC(=O)c1ccccc1O', 'Oc1ccccn1', 'O=c1cccc[nH]1', 'CC(=O)CC(C)=O', 'NC(N)=N', 'Cc1ncc[nH]1', 'OC1=CC=NC=C1', 'CN=O', 'CC(O)=C',
    'C[N+](=O)[O-]', 'CN(=O)=O', 'C[S+](C)[O-]', 'Cl[Pt](Cl)(N)N', 'CC1=CC=CC=C1', 'C1=CC=CC=C1', 'N1C=CC=C1', 'c1cc[nH]c1',
    '[NH3+]CCCCC([NH3+])C(=O)[O-]', '[O-]C(=O)CC(C(=O)[O-])[NH3+]', 'C[NH2+]CCc1ccc([O-])c(C([O-])=O)c1', '[Na+].[O-]C(=O)CCC([NH3+])C([O-])=O',
    '[O-]C(=O)CCC(=O)[O-].[NH4+]', '[NH3+]CC[NH2+]CC([O-])=O', '[O-]c1ccccc1C([O-])=O.[K+]', 'C[N+](C)(C)CC([O-])=O', '[NH3+]CCS([O-])(=O)=O',
    '[O-]P(=O)([O-])OCC[NH3+]', 'NC(CC(=O)C)C(=O)O', 'OC(=O)CC(=O)CCN', 'CC(=O)CC(C)NCC(O)=O', 'Cc1ccccc1C', 'Cc1ccc2ccccc2c1',
    'C1=CC=CC=CC=C1', 'c1ccc2[nH]ccc2c1', 'C[C@@](F)(Cl)Br', 'F[C@H](Cl)[C@@H](Br)[C@H](F)Cl', 'CC(C)(C)c1ccccc1', 'C.C.C', 'CCN.CCO',
]
# always part of every run, whatever the seed: one or more molecules per feature class a nondeterminism bug could need
CORE_SMILES = [
    '[2H]C(Cl)(F)Br', '[13CH3]C(=O)O', 'CC([18OH])=O', '[2H]c1ccccc1', '[14CH3][C@H](N)C(O)=O',            # isotopes
    'CC(=O)[O-].[Na+]', '[O-][N+](=O)c1ccccc1', 'CS(=O)(=O)[O-]', '[O-]c1ccccc1', '[NH3+]CC([O-])=O',        # anions / zwitter-ions
    '[CH3]', 'C[CH]C', 'C[O]', '[O][O]',                                                                      # radicals
    'O[C@H]([C@@H](O)C(O)=O)C(O)=O', 'O[C@@H]([C@@H](O)C(O)=O)C(O)=O', 'C/C=C/C=C\\C', 'C/C=C/C=C/C',      # meso / E,Z pairs
    'C[C@H]1CC[C@@H](C)CC1', 'C[C@H]1C[C@@H](C)C1', 'O[C@H]1[C@H](O)[C@@H](O)[C@H](O)[C@@H](O)[C@@H]1O',   # ring stereo groups
    'CC=[C@]=CC', 'CC(C)=[C@@]=C(C)Cl',                                                                       # allenes
    'C1CC2CC1C2', 'C1CC2CCC1C2', 'C1C2CC3CC1CC(C2)C3', 'C12C3C4C1C5C2C3C45',                                  # equal-size ring ties, cages
    'c1ccc2ccccc2c1', 'Cc1ccccc1C', 'c1ccc2[nH]ccc2c1', 'OC(=O)c1ccccc1O',                                     # several Kekule forms
    '[NH3+]CCCCC([NH3+])C(=O)[O-]', '[O-]C(=O)CC(C(=O)[O-])[NH3+]', '[NH3+]CC[NH2+]CC([O-])=O',               # unbalanced multi-site ions
    'NC(CC(=O)C)C(=O)O', 'OC(=O)CC(=O)CCN', 'CC(=O)CC(C)=O', 'Oc1ccccn1',                                      # tautomers
    'C.C.C', 'CCO.CCO.CCN', '[Na+].[Na+].[O-]S([O-])(=O)=O',                                                   # identical / many components
    'Cl[Pt](Cl)(N)N', 'C[Mg]Br', 'N[Cu]N',                                                                     # metals
    'C1CNCCN1', 'C1CN1', 'CN1CCOCC1', 'NCCO', 'OCCNCCO',                                                       # symmetric match sites for wildcard-first queries
    'Cc1cn2ccsc2n1', 'N1C=Cn2cccc12', 'c1ccc2c(c1)[nH]c1ccccc21', 'C1=CC2=CC=CN2C=C1',                        # fused hetero rings (scoped matching inside thiele)
    'CN(C)(C)=O', 'CN(=O)=O', 'C[S+](C)[O-]', 'CN=[N+]=[N-]', 'C=[N+]=[N-]',                                   # standardisation groups
    'CC(O)=O.CC[O-]', 'Oc1ccccc1.[OH-]', 'OC(=O)CCC([O-])=O', 'CC(O)=O.C[NH3+]', 'Cl.CC[O-]',                  # acid next to a base (rule-table driven proton moves)
    'CN.Cl', 'C[NH3+].[Cl-]', 'CC(O)=O.CN', 'COC=O.CN', 'CCN.CC([O-])=O', 'CCN(CC)CC.OC(=O)C=CC(O)=O',         # twin counter-ions: same composition, acid / anion / isomer
    'CCN(CC)CC.OC(=O)C(=C)C(O)=O', 'CCO.CN', 'CCCC[O-]', 'C[N+](C)(C)CCO.[Cl-]', 'OC(=O)C',                    # ... and atoms of one kind with / without charge
    'Cn1cc[n+](CC)c1', 'Cc1cc[nH+][nH]1', 'CC[n+]1cc[nH]c1C', 'C[n+]1ccn(C(C)C)c1', 'Cn1cc[n+](C)c1',          # charged azoles: the charge can sit on either nitrogen
    'c1cc[nH+]cc1.CC([O-])=O', 'C[N+]1=CC=CC=C1', 'NC(N)=[NH2+]', 'CC(N)=[NH2+]',                              # (standardize_charges decides by atom order)
]
_CORE_SET = set(CORE_SMILES)
# molecules that are observed (and copied) only after an in-place normaliser ran on them, and objects derived from a molecule
NORM_ITEMS = [('C1=CC=CC=C1C', 'thiele'), ('c1ccccc1O', 'kekule'), ('C1=CC=C2C=CC=CC2=C1', 'thiele+kekule'), ('OC(=O)C1=CC=CC=C1N(=O)=O', 'canonicalize'),
              ('CN(=O)=O', 'standardize'), ('C[C@H](N)C(=O)O', 'explicify_hydrogens'), ('[H]C([H])([H])[C@]([H])(N)C(O)=O', 'implicify_hydrogens'),
              ('C[C@H](N)C(=O)O', 'explicify_hydrogens+implicify_hydrogens'), ('C/C=C/C=C\\C', 'explicify_hydrogens'), ('[13CH3]C(=O)O', 'clean_isotopes'),
              ('C[C@H](O)[C@@H](O)C', 'clean_stereo'), ('CC(=O)[O-].[NH4+]', 'neutralize'), ('O=C1C=CC=CN1', 'thiele'), ('Oc1ccccn1', 'canonicalize'),
              ('N1C=Cn2cccc12', 'thiele'), ('c1ccc2[nH]ccc2c1', 'kekule+thiele'), ('C[N+](C)(C)CC([O-])=O', 'standardize+neutralize'),
              ('Cl[Pt](Cl)(N)N', 'remove_coordinate_bonds'), ('CC=[C@]=CC', 'explicify_hydrogens'), ('C[C@H]1CC[C@@H](C)CC1', 'explicify_hydrogens+implicify_hydrogens')]
DERIVED_ITEMS = [(s, how) for s in ('C[C@H]1CC[C@@H](C)CC1', 'CC(=O)Oc1ccccc1C(O)=O', 'C/C=C/C(=O)N[C@@H](C)C(O)=O', 'C1CC2CCC1CC2', '[NH3+]CC([O-])=O.CCO')
                 for how in ('sub', 'aug', 'union', 'split', 'remap', 'keep')]
FILES = ['isomorphism.sdf', 'mcs.sdf', 'standardize.sdf', 'arenes.sdf', 'hbonds.sdf', 'depict.sdf', 'implicit.sdf',
         'morgan_ruiner.sdf', 'stereo.sdf', 'MR.rdf', 'ions.rdf', 'standardize.rdf', 'implicit.mrv', 'cycle.sdf']
RXN_OBS = ['rxn_str', 'rxn_fmt_m', 'rxn_fmt_h', 'rxn_fmt_ns', 'rxn_fmt_A', 'rxn_cgr', 'rxn_cgr_order', 'rxn_centers', 'rxn_canonicalize', 'rxn_standardize',
           'rxn_kekule', 'rxn_thiele', 'rxn_members', 'rxn_member_orders', 'rxn_member_atoms_order', 'rxn_member_mapping', 'rxn_hash_eq',
           'rxn_clean_stereo', 'rxn_canonicalize_log', 'rxn_standardize_log', 'rxn_remove_reagents', 'rxn_contract_ions',
           'rxn_fix_mapping', 'rxn_fix_groups_mapping', 'rxn_keep_reagents', 'rxn_keep_reagents_rules', 'rxn_clean_isotopes', 'rxn_implicify_hydrogens',
           'rxn_explicify_hydrogens']
RXN_SMILES = ['CCO.CC(=O)O>>CC(=O)OCC.O', '[CH3:1][CH2:2][OH:3].[CH3:4][C:5](=[O:6])[OH:7]>>[CH3:4][C:5](=[O:6])[O:3][CH2:2][CH3:1].[OH2:7]',
              'c1ccccc1.Cl>[Al](Cl)(Cl)Cl>Clc1ccccc1', 'C=C.C=CC=C>>C1CCC=CC1', 'CC(=O)C>>CC(O)=C', 'OC(=O)c1ccccc1.CN>>CNC(=O)c1ccccc1.O',
              '[Na+].[OH-].CCl>>CO.[Na+].[Cl-]', 'C[C@H](O)C(=O)O>>C[C@@H](O)C(=O)O', 'C/C=C/C.BrBr>>C[C@H](Br)[C@@H](C)Br',
              'CC#N.O>>CC(N)=O', 'c1ccncc1.CI>>C[n+]1ccccc1.[I-]', 'O=C1CCCCC1.NO>>ON=C1CCCCC1.O', 'CCBr.[Mg]>>CC[Mg]Br',
              'C1CC1.[H][H]>>CCC', 'N#N.[H][H].[H][H].[H][H]>>N.N',
              '[Na+:1].[K+:2].[Cl-:3].[Cl-:4]>>[Na+:1].[Cl-:3].[K+:2].[Cl-:4]', '[Li+].[Na+].[K+].[F-].[F-].[F-]>>CC',     # several kinds of cations, one kind of anions
              '[Na+].[Na+].[Cl-].[Br-]>>CC.[K+].[K+].[I-].[F-]', '[NH4+].[K+].[O-]C(C)=O.[O-]C(C)=O.CCO>>CC(=O)OCC',
              'C[CH2].[H][H]>>CC', '[CH3].[CH3]>>CC', 'CC[O]>>CC=O', 'C[CH]C.ClCl>>CC(Cl)C.[Cl]',     # radical members (CXSMILES block)
              '[CH3:1][CH2:2][OH:3].[CH3:4][C:5](=[O:6])[OH:7].[Na+].[Cl-].[K+].O>>[CH3:4][C:5](=[O:6])[O:3][CH2:2][CH3:1].[OH2:7]',
              'CCO.CC(O)=O.O.[Na+].[Cl-].ClCCl>>CC(=O)OCC.O.[Na+].[Cl-].ClCCl',      # several molecules become reagents at once
              'CCO.CC(O)=O>[H+]>CC(=O)OCC.O', '[CH3:1][OH:2].CC(Cl)=O>N>[CH3:1][O:2]C(C)=O.Cl',       # unmapped / partially mapped atoms
              # atom-to-atom mapping errors in two groups at once (the mapping fixer has to remap several groups)
              '[CH3:1][C:2](=[O:3])[O:4][CH3:5].[CH3:6][C:7](=[O:8])[O:9][CH3:10].[OH2:11].[OH2:12]>>[CH3:1][C:2](=[O:4])[OH:3].[CH3:6][C:7](=[O:9])[OH:8].[CH3:5][OH:11].[CH3:10][OH:12]',
              '[CH3:1][N+:2](=[O:3])[O-:4].[CH3:5][N+:6](=[O:7])[O-:8]>>[CH3:1][N+:2](=[O:4])[O-:3].[CH3:5][N+:6](=[O:8])[O-:7]',
              '[CH3:1][C:2](=[O:3])[OH:4].[CH3:6][C:7](=[O:8])[OH:9].[CH3:5][OH:11].[CH3:10][OH:12]>>[CH3:1][C:2](=[O:4])[O:11][CH3:5].[CH3:6][C:7](=[O:9])[O:12][CH3:10].[OH2:3].[OH2:8]',
              '[CH3:1][C:2](=[O:3])[O:4][CH2:5][CH2:6][O:7][C:8](=[O:9])[CH3:10].[OH2:11].[OH2:12]>>[CH3:1][C:2](=[O:4])[OH:3].[CH3:10][C:8](=[O:7])[OH:9].[OH:11][CH2:5][CH2:6][OH:12]']
_corpus_cache = None


def full_corpus():
    global _corpus_cache
    if _corpus_cache is None:
        out = []
        with open(os.path.join(env.REPO, 'pach', 'lipophilicity.csv')) as f:
            for row in csv.DictReader(f):
                out.append(['smi', row['smiles']])
        out += [['smi', s] for s in CORE_SMILES]
        out += [['smi', s] for s in EXTRA_SMILES]
        for f, n in (('isomorphism.sdf', 8), ('mcs.sdf', 8), ('standardize.sdf', 40), ('arenes.sdf', 40), ('hbonds.sdf', 1),
                     ('depict.sdf', 1), ('implicit.sdf', 2), ('morgan_ruiner.sdf', 1), ('stereo.sdf', 60), ('MR.rdf', 4),
                     ('ions.rdf', 4), ('standardize.rdf', 12), ('implicit.mrv', 1), ('cycle.sdf', 20)):
            out += [['file', f, k] for k in range(n)]
        out += [['edit', s, k] for k, s in enumerate(EXTRA_SMILES[:30])]
        out += [['rxnsmi', s] for s in RXN_SMILES]
        out += [['smarts', s] for s in QUERY_SMARTS]
        out += [['norm', s, meth] for s, meth in NORM_ITEMS]
        out += [['derived', s, how] for s, how in DERIVED_ITEMS]
        for f, n in (('ions.rdf', 1), ('reaction_centerslist.rdf', 2), ('standardize.rdf', 6)):
            out += [['rxnfile', f, k] for k in range(n)]
        _corpus_cache = out
    return _corpus_cache


def draw_config(rng, k):
    hs = [0, 1][k] if k < 2 else rng.choice([0, 1, rng.randrange(1, 2 ** 32 - 1), rng.randrange(1, 2 ** 32 - 1)])
    return {'hashseed': hs, 'aslr': rng.random() < 0.7, 'junk': rng.choice([0, 0, 1, 1009, 100003]),
            'gc': rng.choice(['on', 'on', 'off', 'low']), 'window': rng.choice([1, 2, 4, 8]), 'tseed': rng.randrange(1 << 20)}


def _dedupe(xs):
    seen, out = set(), []
    for x in xs:
        if x not in seen:
            seen.add(x)
            out.append(x)
    return out


def make_events(rng, n_mols, tier, cfg, corpus=None):
    order = list(range(n_mols))
    rng.shuffle(order)
    per = []
    for i in order:
        if corpus is not None and corpus[i][0] == 'smarts':
            names = list(QRY_OBS)
            rng.shuffle(names)
            ev = [['load', i]]
            copy_first = rng.random() < 0.3
            if copy_first:
                ev.append(['copy', i])
                ev += [['obs_copy', i, n, 'copy-first'] for n in names]
            ev += [['obs', i, n, 'first'] for n in names]
            ev += [['obs', i, n, 'again'] for n in rng.sample(names, 6)]
            if rng.random() < 0.5:
                ev.append(['flush', i])
                ev += [['obs', i, n, 'after-flush'] for n in rng.sample(names, 6)]
            if not copy_first:
                ev.append(['copy', i])
                ev += [['obs_copy', i, n, 'copy'] for n in names]
            ev.append(['drop', i])
            per.append(ev)
            continue
        if corpus is not None and corpus[i][0] in ('rxnsmi', 'rxnfile'):
            names = list(RXN_OBS)
            rng.shuffle(names)
            ev = [['load', i]]
            ev += [['obs', i, n, 'first'] for n in names]
            ev += [['obs', i, n, 'again'] for n in names]      # every observer also on the warm object (all are cheap on reactions)
            if rng.random() < 0.6:
                ev.append(['copy', i])
                ev += [['obs_copy', i, n, 'copy'] for n in rng.sample(names, 6)]
            ev.append(['drop', i])
            per.append(ev)
            continue
        names = list(CHEAP)
        if corpus is not None and corpus[i][0] == 'smi' and corpus[i][1] in _CORE_SET:
            # the fixed core of feature molecules gets every observer in every execution (detection must not be seed luck)
            names += MEDIUM + EXPENSIVE + ['smarts%d%s' % (k, rng.choice(['', '_all'])) for k in range(N_SMARTS)]
            rng.shuffle(names)
            names = _dedupe(names)
        else:
            names += rng.sample(MEDIUM, 6 if tier == 'quick' else 9)
            names += ['smarts%d%s' % (k, rng.choice(['', '_all'])) for k in rng.sample(range(N_SMARTS), 5 if tier == 'quick' else 8)]
            if rng.random() < (0.4 if tier == 'quick' else 0.7):
                names += rng.sample(EXPENSIVE, 2)
            rng.shuffle(names)
        ev = [['load', i]]
        copy_first = rng.random() < 0.3
        if copy_first:
            ev.append(['copy', i])
            ev += [['obs_copy', i, n, 'copy-first'] for n in rng.sample(names, min(len(names), 6))]
        ev += [['obs', i, n, 'first'] for n in names]
        ev += [['obs', i, n, 'again'] for n in rng.sample(names, min(len(names), 8))]
        if rng.random() < 0.5:
            ev.append(['flush', i])
            ev += [['obs', i, n, 'after-flush'] for n in rng.sample(names, min(len(names), 8))]
        if not copy_first and rng.random() < 0.6:
            ev.append(['copy', i])
            ev += [['obs_copy', i, n, 'copy'] for n in rng.sample(names, min(len(names), 8))]
        if rng.random() < 0.1:
            ev.append(['gc'])
        ev.append(['drop', i])
        per.append(ev)
    # interleave over a sliding window of live molecules
    out, active, nxt = [], [], 0
    W = cfg['window']
    while active or nxt < len(per):
        while len(active) < W and nxt < len(per):
            active.append(iter(per[nxt]))
            nxt += 1
        it = rng.choice(active)
        try:
            out.append(next(it))
        except StopIteration:
            active.remove(it)
    return out


def make_solo_jobs(base, corpus, tier):
    """Executions without history: one observer alone over the core molecules, and one core molecule alone under every
    observer, each in its own fresh interpreter.  Compared with the long mixed executions they expose results that depend on
    what the same process did before (growing process-global tables, memos keyed too coarsely, first-use order)."""
    rng = random.Random(core.derive_seed(base, PROP, 'solo'))
    core_m = [i for i, c in enumerate(corpus) if c[0] == 'smi' and c[1] in _CORE_SET]
    core_r = [i for i, c in enumerate(corpus) if c[0] in ('rxnsmi', 'rxnfile')][:12]
    names = CHEAP + MEDIUM + EXPENSIVE
    sm = ['smarts%d%s' % (k, v) for k in range(N_SMARTS) for v in ('', '_all')]
    names = names + (rng.sample(sm, 8) if tier == 'quick' else sm)
    jobs = []
    for n in names:
        order = list(core_m)
        rng.shuffle(order)
        ev = []
        for i in order:
            ev += [['load', i], ['obs', i, n, 'solo-observer'], ['drop', i]]
        jobs.append({'config': draw_config(rng, 2), 'corpus': corpus, 'events': ev, 'solo': 'observer:' + n})
    for n in (rng.sample(RXN_OBS, 8) if tier == 'quick' else RXN_OBS):
        ev = []
        for i in core_r:
            ev += [['load', i], ['obs', i, n, 'solo-observer'], ['drop', i]]
        jobs.append({'config': draw_config(rng, 2), 'corpus': corpus, 'events': ev, 'solo': 'observer:' + n})
    mols = rng.sample(core_m, min(len(core_m), 24)) if tier == 'quick' else core_m
    for i in mols:
        ns = CHEAP + MEDIUM + EXPENSIVE + ['smarts%d%s' % (k, rng.choice(['', '_all'])) for k in range(N_SMARTS)]
        rng.shuffle(ns)
        ev = [['load', i]] + [['obs', i, n, 'solo-molecule'] for n in ns] + [['drop', i]]
        jobs.append({'config': draw_config(rng, 2), 'corpus': corpus, 'events': ev, 'solo': 'molecule:%d' % i})
    return jobs


def run_job(job, tag, scratch, timeout=1500):
    jp = os.path.join(scratch, f'job-{tag}.json')
    op = os.path.join(scratch, f'out-{tag}.json')
    with open(jp, 'w') as f:
        json.dump(job, f)
    cfg = job['config']
    cmd = [sys.executable, WORKER, jp, op]
    if not cfg.get('aslr', True):
        cmd = ['setarch', 'x86_64', '-R'] + cmd
    p = subprocess.run(cmd, capture_output=True, text=True, timeout=timeout,
                       env=env.child_env(cfg['hashseed'], os.environ.get('PYTHONPYCACHEPREFIX')))
    if p.returncode != 0 or not os.path.exists(op):
        raise core.HarnessError(f'worker {tag} failed rc={p.returncode}: {p.stderr[-1500:]}')
    with open(op) as f:
        res = json.load(f)['results']
    os.remove(jp)
    os.remove(op)
    return res


def compare(all_results):
    """all_results: list of (exec index, results).  Returns dict key -> list of (exec, tag, digest) for divergent keys."""
    by_key = defaultdict(list)
    for ex, res in all_results:
        for i, name, tag, dg in res:
            by_key[(i, name)].append((ex, tag, dg))
    bad = {}
    for key, obs in by_key.items():
        if len({d for _, _, d in obs}) > 1:
            bad[key] = obs
    return by_key, bad


def classify(obs):
    per_exec = defaultdict(set)
    for ex, tag, d in obs:
        per_exec[ex].add((tag, d))
    for ex, tds in per_exec.items():
        ds = {d for _, d in tds}
        if len(ds) > 1:
            tags = {t for t, _ in tds}
            orig = {d for t, d in tds if not t.startswith('copy')}
            if len(orig) > 1:
                return 'cached-vs-uncached', ex, ex
            return 'copy-vs-original', ex, ex
    exs = sorted(per_exec)
    ref = next(iter(per_exec[exs[0]]))[1]
    for ex in exs[1:]:
        if next(iter(per_exec[ex]))[1] != ref:
            return 'cross-process', exs[0], ex
    return 'cross-process', exs[0], exs[-1]


def minimise(key, jobs, a, b, scratch, budget_n=40, deadline=None):
    """Reduce the two diverging executions to the events of the one molecule, then ddmin the events."""
    i, name = key
    budget = [budget_n]

    def _tick():
        if deadline is not None and time.time() > deadline:
            budget[0] = 0

    def restrict(job):
        ev = []
        for e in job['events']:
            if len(e) > 1 and e[1] == i:
                ev.append([e[0], 0] + e[2:])
            elif e[0] == 'gc':
                ev.append(e)
        return {'config': job['config'], 'corpus': [job['corpus'][i]], 'events': ev}

    ja, jb = restrict(jobs[a]), restrict(jobs[b])
    pair = [ja] if a == b else [ja, jb]

    def diverges(pair):
        res = [(k, run_job(j, f'min{k}', scratch)) for k, j in enumerate(pair)]
        _, bad = compare(res)
        return (0, name) in bad

    budget[0] -= 1
    kidx = 0
    if not diverges(pair):
        # the divergence needs other molecules / earlier events (first-use order of process-global state):
        # keep the whole corpus, cut each schedule after the last observation of the key, then ddmin the events
        def cut(job):
            last = max((n for n, e in enumerate(job['events']) if len(e) > 2 and e[1] == i and e[2] == name), default=-1)
            return dict(job, events=job['events'][:last + 1])
        pair = [cut(jobs[a])] if a == b else [cut(jobs[a]), cut(jobs[b])]
        kidx = i

        def diverges(pair):   # noqa: F811
            res = [(k, run_job(j, f'min{k}', scratch)) for k, j in enumerate(pair)]
            _, bad = compare(res)
            return (i, name) in bad
        budget[0] -= 1
        if not diverges(pair):
            return None, 0
    for k in range(len(pair)):
        def test(events, k=k):
            _tick()
            if budget[0] <= 0:
                return False
            cand = list(pair)
            cand[k] = dict(pair[k], events=events)
            return diverges(cand)
        ev = core.ddmin(pair[k]['events'], test, budget)
        pair[k] = dict(pair[k], events=ev)
    return pair, kidx


def replay_file(path, scratch):
    with open(path) as f:
        t = json.load(f)
    res = [(k, run_job(j, f'replay{k}', scratch)) for k, j in enumerate(t['jobs'])]
    by_key, bad = compare(res)
    k = (t['key'][0], t['key'][1])
    if k in bad:
        cls, _, _ = classify(bad[k])
        return {'class': f'{cls}:{k[1]}', 'detail': str(bad[k])[:400]}, t
    return None, t


TIERS = {'quick': {'mols': 140, 'execs': 16}, 'thorough': {'mols': 4300, 'execs': 48, 'slice': 270}}


def main(argv):
    import argparse
    ap = argparse.ArgumentParser()
    ap.add_argument('--tier', default=core.tier_from_env())
    ap.add_argument('--replay')
    ap.add_argument('--mols', type=int)
    ap.add_argument('--execs', type=int)
    ap.add_argument('--no-confirm', action='store_true')
    a = ap.parse_args(argv)
    scratch = env.scratch_dir('c19-%d' % os.getpid())
    try:
        return _main(a, scratch)
    finally:
        shutil.rmtree(scratch, ignore_errors=True)


def _main(a, scratch):
    if a.replay:
        v, t = replay_file(a.replay, scratch)
        print(json.dumps({'violation': v}, indent=1))
        if v:
            print(f'VIOLATION property={PROP} replay={a.replay}')
            return core.EXIT_VIOLATION
        print('replay: no violation')
        return core.EXIT_OK

    t0 = time.time()
    tier = a.tier if a.tier in TIERS else 'quick'
    T = dict(TIERS[tier])
    if a.mols:
        T['mols'] = a.mols
    if a.execs:
        T['execs'] = a.execs
    base = core.base_seed()
    print(f'[{PROP}] VERIF_SEED={base} tier={tier} molecules={T["mols"]} executions={T["execs"]} repo={env.REPO}', flush=True)
    crng = random.Random(core.derive_seed(base, PROP, 'corpus'))
    corpus_all = full_corpus()
    idx = list(range(len(corpus_all)))
    crng.shuffle(idx)
    # always include the hand-picked symmetric / stereo / bridged molecules, fill the rest from the shuffled corpus
    special = [k for k, c in enumerate(corpus_all) if c[0] != 'smi' or c[1] in EXTRA_SMILES or c[1] in CORE_SMILES]
    crng.shuffle(special)
    n = min(T['mols'], len(corpus_all))
    core_idx = [k for k, c in enumerate(corpus_all) if c[0] == 'smi' and c[1] in CORE_SMILES] + \
               [k for k, c in enumerate(corpus_all) if c[0] in ('rxnsmi',)][:6] + \
               [k for k, c in enumerate(corpus_all) if c[0] in ('smarts', 'norm', 'derived')] + \
               [k for k, c in enumerate(corpus_all) if c[0] == 'rxnsmi' and (':11]' in c[1] or '[CH2]' in c[1] or '[CH3].' in c[1]
                                                                             or '[O]' in c[1] or '[CH]' in c[1] or '>N>' in c[1] or '[K+]' in c[1] or 'ClCCl' in c[1] or '@' in c[1] or '/' in c[1])]
    first = core_idx + [k for k in special[:n // 4] if k not in set(core_idx)]
    chosen = (first + [k for k in idx if k not in set(first)])[:max(n, len(core_idx) + 40)]
    slice_n = T.get('slice', len(chosen))
    slices = [chosen[k:k + slice_n] for k in range(0, len(chosen), slice_n)]

    probes = Counter()
    probes['reactions_in_run'] = sum(1 for k in chosen if corpus_all[k][0] in ('rxnsmi', 'rxnfile'))
    total_obs = 0
    keys_compared = 0
    configs_used = set()
    errors, found, samples = [], [], []
    n_solo = 0
    min_spent = 0.0
    min_cap = 240 if tier == 'quick' else 900          # wall budget of all minimisation of one run
    workers = int(os.environ.get('VERIF_WORKERS', '0')) or min(16, os.cpu_count() or 1)
    for si, sl in enumerate(slices):
        corpus = [corpus_all[k] for k in sl]
        jobs = []
        for k in range(T['execs']):
            rng = random.Random(core.derive_seed(base, PROP, f'exec/{si}/{k}'))
            cfg = draw_config(rng, k)
            jobs.append({'config': cfg, 'corpus': corpus, 'events': make_events(rng, len(corpus), tier, cfg, corpus)})
            configs_used.add((cfg['hashseed'], cfg['aslr'], cfg['junk'], cfg['gc'], cfg['window']))
            probes['exec:hashseed=%s' % ('0' if cfg['hashseed'] == 0 else '1' if cfg['hashseed'] == 1 else 'random')] += 1
            probes['exec:aslr_%s' % ('on' if cfg['aslr'] else 'off')] += 1
            probes['exec:gc_' + cfg['gc']] += 1
            probes['exec:junk_%d' % cfg['junk']] += 1
        if si == 0:
            solo = make_solo_jobs(base, corpus, tier)
            jobs += solo
            n_solo += len(solo)
            for j in solo:
                probes['exec:solo_' + j['solo'].split(':')[0]] += 1
        if not samples:
            samples.append({'config': jobs[2 % len(jobs)]['config'], 'corpus_head': corpus[:3], 'events_head': jobs[2 % len(jobs)]['events'][:40]})
        results = []
        with ThreadPoolExecutor(max_workers=workers) as tp:
            futs = {tp.submit(run_job, job, f's{si}e{k}', scratch): k for k, job in enumerate(jobs)}
            for fu, k in futs.items():
                try:
                    results.append((k, fu.result()))
                except Exception as e:
                    errors.append((k, f'{e!r}'[-1500:]))
        by_key, bad = compare(results)
        for k, res in results:
            total_obs += len(res)
            for i, name, tag, dg in res:
                probes['phase:' + tag] += 1
                if dg.startswith('EXC:'):
                    probes['observer_raised:' + dg[4:]] += 1
        keys_compared += sum(1 for v in by_key.values() if len({e for e, _, _ in v}) > 1 or len(v) > 1)
        # group divergent keys by (class, observer)
        groups = {}
        for key, obs in bad.items():
            cls, ea, eb = classify(obs)
            g = (cls, key[1].rstrip('0123456789') if key[1].startswith('smarts') else key[1])
            if g not in groups:
                groups[g] = (key, obs, ea, eb)
        for (cls, oname), (key, obs, ea, eb) in sorted(groups.items())[:6]:
            kidx = 0
            tm = time.time()
            try:
                pair, kidx = minimise(key, jobs, ea, eb, scratch, deadline=tm + max(20.0, min(90.0, min_cap - min_spent)))
            except Exception as e:
                errors.append((-1, 'minimise failed: ' + traceback.format_exc()[-800:]))
                pair = None
            min_spent += time.time() - tm
            if pair is None:
                errors.append((-1, f'divergence on {key} did not reproduce in isolation (class {cls})'))
                found.append({'class': f'{cls}:{key[1]}', 'key': [0, key[1]], 'jobs': None, 'unreproduced': True,
                              'molecule': corpus[key[0]], 'detail': str(obs)[:300]})
                continue
            found.append({'class': f'{cls}:{key[1]}', 'key': [kidx, key[1]], 'jobs': pair, 'molecule': corpus[key[0]],
                          'detail': str(sorted({(t, d) for _, t, d in obs}))[:300]})
        if time.time() - t0 > (1500 if tier == 'thorough' else 400):
            probes['stopped_early_wall'] += 1
            break

    # regression: replay files of repaired findings must stay quiet (a fixed entry suppresses nothing)
    import glob
    for f in sorted(glob.glob(os.path.join(env.VERIF, 'replays', 'fixed', '*.json'))):
        with open(f) as fh:
            t = json.load(fh)
        if t.get('property') != PROP:
            continue
        probes['regression_replays'] += 1
        v, _ = replay_file(f, scratch)
        if v is not None:
            found.append({'class': v['class'], 'key': t['key'], 'jobs': t['jobs'], 'molecule': t.get('molecule'), 'detail': v['detail']})

    known = core.load_known(PROP)
    exit_code = core.EXIT_OK
    reported, known_hit = 0, []
    for f in found:
        if f.get('unreproduced'):
            continue
        k = core.match_known(known, f['class'], ['mol:' + json.dumps(f['molecule'])], f['detail'])
        if k is not None:
            if k['id'] not in known_hit:
                print(f"KNOWN-FINDING: property={PROP} {k['id']}: {k['what']}")
                known_hit.append(k['id'])
            continue
        trace = {'property': PROP, 'key': f['key'], 'jobs': f['jobs'], 'violation': {'class': f['class'], 'detail': f['detail']},
                 'molecule': f['molecule']}
        path = core.write_replay(PROP, core.digest([f['class'], f['molecule']])[:10], trace)
        ok = True
        if not a.no_confirm:
            v, _ = replay_file(path, scratch)
            ok = v is not None
        if ok:
            print(f'VIOLATION property={PROP} replay={path}')
            print(f"  class={f['class']} molecule={f['molecule']} detail={f['detail'][:200]}")
            exit_code = core.EXIT_VIOLATION
            reported += 1
        else:
            errors.append((-1, f"replay of {f['class']} did not reproduce"))

    wall = time.time() - t0
    payload = {
        'property_id': PROP, 'tier': tier, 'seed': base, 'level': 'exploration', 'wall_s': round(wall, 2), 'violations': reported,
        'coverage': {
            'evaluations': total_obs,
            'distinct_nontrivial': keys_compared,
            'rule': 'one evaluation = one observation (molecule, observer, phase) in one fresh interpreter; non-trivial and distinct = '
                    'distinct (molecule, observer) keys whose digest was compared across at least two observations (other process / '
                    'hash seed / ASLR / GC mode, cached, after flush, on the copy, copy first).',
            'samples': samples or [{'note': 'none'}],
            'executions': T['execs'] * len(slices) + n_solo, 'solo_executions': n_solo, 'molecules': len(chosen), 'corpus_size': len(corpus_all),
            'distinct_configurations': len(configs_used),
            'observers': len(CHEAP) + len(MEDIUM) + len(EXPENSIVE) + 2 * N_SMARTS + len(RXN_OBS),
            'observations_per_hour': int(total_obs / max(wall, 1e-9) * 3600),
            'executions_per_hour': int((T['execs'] * len(slices) + n_solo) / max(wall, 1e-9) * 3600),
            'fault_kinds': 'none in the classical sense: perturbation of hash seed, address-space layout, GC mode, heap layout, '
                           'first-use order and evaluation schedule (counts under probes exec:*)',
            'probes': dict(sorted(probes.items())),
            'uncovered': ['pack bytes: the pack codec exists only as Cython source and cannot be built in this sandbox'],
            'known_findings_hit': known_hit,
            'real_components': ['chython (working tree of /repo)', 'CPython 3.12 fresh interpreters', 'setarch -R'],
            'stub_components': ['CachedMethods.class_cached_property.__get__ shim'],
        },
        'assumptions': ['observers are pure: normalising/enumerating calls are applied to a fresh copy of the live molecule',
                        'hash(mol) is hash(str) and therefore seed-dependent by definition of Python; not an observer'],
    }
    if errors:
        payload['coverage']['harness_errors'] = [e[1][-400:] for e in errors[:5]]
    core.write_evidence(PROP, payload)
    print(f'[{PROP}] executions={T["execs"] * len(slices)}+{n_solo} solo molecules={len(chosen)} observations={total_obs} keys={keys_compared} '
          f'wall={wall:.1f}s violations={reported} known={len(known_hit)} harness_errors={len(errors)}', flush=True)
    if errors and exit_code == core.EXIT_OK:
        for i, e in errors[:3]:
            print(f'HARNESS-ERROR exec={i}\n{e}', file=sys.stderr)
        return core.EXIT_HARNESS
    return exit_code
