"""Determinism self-test (DESIGN.md section 9): the same run index must give byte-identical traces and
observation digests in another worker process, at another worker count and in a fresh interpreter
under another PYTHONHASHSEED."""
import json
import os
import subprocess
import sys
import time

from simkit import core, env


def _digests_pool(mod, idxs, workers, tier):
    mod._digest_worker.tier = tier
    res, completed, errors = core.run_pool(mod._digest_worker, idxs, workers=workers, chunk=8, hang_s=300)
    if errors:
        raise core.HarnessError(f'selftest worker errors: {errors[:2]}')
    # a run set aside by the soft wall-clock limit (machine under load) has no digest: it is compared in no mode
    return {i: r['digest'] for i, r in res.items() if 'digest' in r}


def _digests_fresh(prop, a, b, hashseed):
    p = subprocess.run([sys.executable, os.path.join(env.VERIF, 'check'), prop, '--digest', str(a), str(b)],
                       capture_output=True, text=True, timeout=1200,
                       env=env.child_env(hashseed, os.environ.get('PYTHONPYCACHEPREFIX')))
    for line in p.stdout.splitlines():
        if line.startswith('DIGESTS '):
            return {int(k): v for k, v in json.loads(line[8:]).items()}
    raise core.HarnessError(f'no digests from fresh interpreter: rc={p.returncode}\n{p.stdout[-2000:]}\n{p.stderr[-2000:]}')


def main(argv):
    import argparse
    import importlib
    ap = argparse.ArgumentParser()
    ap.add_argument('--quick', action='store_true')
    ap.add_argument('--props', default='C13,C11')
    a = ap.parse_args(argv)
    n = 48 if a.quick else 400
    t0 = time.time()
    bad = 0
    for prop in a.props.split(','):
        try:
            mod = importlib.import_module('checks.' + prop.lower())
        except ModuleNotFoundError:
            print(f'[selftest] {prop}: check not present, skipped')
            continue
        if not hasattr(mod, '_digest_worker'):
            print(f'[selftest] {prop}: no digest support, skipped')
            continue
        mod.prewarm()
        idxs = list(range(n))
        d16 = _digests_pool(mod, idxs, 16, 'quick')
        d16b = _digests_pool(mod, list(reversed(idxs)), 5, 'quick')
        d1 = _digests_pool(mod, idxs[:n // 4], 1, 'quick')
        half = n // 2
        dfa = _digests_fresh(prop, 0, half // 2, '12345')
        dfb = _digests_fresh(prop, half // 2, half, '1')
        diffs = []
        for i in idxs:
            if i not in d16:
                continue
            ref = d16[i]
            for name, d in (('pool5-reversed', d16b), ('inline', d1), ('fresh-hashseed-12345', dfa), ('fresh-hashseed-1', dfb)):
                if i in d and d[i] != ref:
                    diffs.append((i, name))
        print(f'[selftest] {prop}: {n} run indices x (16 workers, 5 workers reversed order, inline, fresh interpreters '
              f'under PYTHONHASHSEED 12345 and 1): {len(diffs)} divergent')
        if diffs:
            print(f'[selftest] {prop}: DIVERGENT {diffs[:10]}')
            bad += len(diffs)
    print(f'[selftest] wall={time.time() - t0:.1f}s')
    return core.EXIT_HARNESS if bad else core.EXIT_OK
