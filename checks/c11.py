"""C11 - MDL (V2000/V3000) and MRV files through a simulated disk with fault injection (DESIGN.md section 6).

One run = one trace: record specs -> real writer -> TextIOWrapper/BufferedWriter (real CPython) -> SimDisk
(short writes, write errors, crash with torn tail) -> optional stored-byte damage -> real reader under a seeded
schedule of calls (sequential, read(n), next(), random access through the on-disk index and the real grep).
"""
import io
import json
import os
import random
import shutil
import sys
import time
import traceback
from collections import Counter

from simkit import core, env
from checks.c11_disk import SimFile, RawWriter, RawReader, SimClock, SimCrash, NoProgress
from checks.c11_records import (gen_record_spec, build_record, record_view, first_diff, diff_field, Unbuildable, FILES, view_features)

PROP = 'C11'
FORMATS = {
    'sdf': {'writer': 'SDFWrite', 'reader': 'SDFRead', 'rxn': False},
    'esdf': {'writer': 'ESDFWrite', 'reader': 'SDFRead', 'rxn': False},
    'rdf': {'writer': 'RDFWrite', 'reader': 'RDFRead', 'rxn': True},
    'erdf': {'writer': 'ERDFWrite', 'reader': 'RDFRead', 'rxn': True},
    'mrv': {'writer': 'MRVWrite', 'reader': 'MRVRead', 'rxn': True},
}


_RUN_SCRATCH = None


def _scratch():
    """Per-process scratch directory below the directory of the invocation (removed as a whole when the check ends)."""
    global _RUN_SCRATCH
    if _RUN_SCRATCH is None or not os.path.isdir(_RUN_SCRATCH):
        _RUN_SCRATCH = env.scratch_dir('c11-%d' % os.getpid())
    d = os.path.join(_RUN_SCRATCH, 'w%d' % os.getpid())
    os.makedirs(d, exist_ok=True)
    return d


class Violation(Exception):
    def __init__(self, cls, detail=''):
        super().__init__(f'{cls}: {detail}')
        self.cls = cls
        self.detail = detail


def _is_record(x):
    from chython.containers import MoleculeContainer, ReactionContainer
    return isinstance(x, (MoleculeContainer, ReactionContainer))


def _cls(name):
    import chython
    return getattr(chython, name)


def _patch_clock(clock):
    import chython.files.RDFrw as R
    R.strftime = clock.strftime


# =============================================================================================
# writing

def reference_write(fmt, records, clock_steps):
    """Fault-free write into a StringIO: the byte image every simulated write is a damaged version of,
    plus the extent of every record.  Returns (text, extents, kept_records, footer_start)."""
    clock = SimClock(steps=clock_steps)
    _patch_clock(clock)
    buf = io.StringIO()
    w = _cls(FORMATS[fmt]['writer'])(buf)
    extents, kept = [], []
    for idx, rec in enumerate(records):
        start = buf.tell()
        try:
            w.write(rec)
        except (ValueError, TypeError) as e:
            continue   # acknowledged refusal; whether what it left behind hurts later records is decided by reading
        except Exception as e:
            if _is_record(rec):
                raise Violation(f'exception-escaped:{type(e).__name__}', f'{FORMATS[fmt]["writer"]}.write raised {e!r} for a valid record')
            continue   # an object that is no record at all: any refusal will do
        extents.append((start, buf.tell()))
        kept.append(idx)
    footer = buf.tell()
    w.close()
    return buf.getvalue(), extents, kept, footer, clock.total


def simulated_write(fmt, records, wp, simfile, append=False):
    """Write through the real io stack onto the SimDisk following the recorded plan `wp`.
    Returns dict(crashed, failed, written) ."""
    clock = SimClock(steps=wp.get('clock', [60]))
    _patch_clock(clock)
    raw = RawWriter(simfile, dict(wp.get('plan') or {}))
    bw = io.BufferedWriter(raw, buffer_size=wp.get('bufsize', 8192))
    tw = io.TextIOWrapper(bw, encoding='utf-8', newline='\n', write_through=bool(wp.get('write_through')))
    W = _cls(FORMATS[fmt]['writer'])
    try:
        if wp.get('via') == 'open':
            # the writer is given a *path* and opens it itself; its module-level `open` is rebound to the simulated disk
            import chython.files.mdl.write as MW
            import chython.files.MRVrw as MV

            def fake_open(file, mode='r', buffering=-1, encoding=None, errors=None, newline=None, **k):
                nonlocal tw
                if 'a' not in mode:
                    del simfile.data[:]
                    simfile.durable = 0
                if encoding is not None or errors is not None:
                    # the library's own choice of encoding / error handler is part of what is under test
                    tw.detach()
                    tw = io.TextIOWrapper(bw, encoding=encoding or 'utf-8', errors=errors, newline='\n',
                                          write_through=bool(wp.get('write_through')))
                return tw
            MW.open = MV.open = fake_open
            try:
                if fmt == 'mrv':
                    w = W('/simdisk/out.mrv')
                else:
                    w = W('/simdisk/out', append=True) if append else W('/simdisk/out')
            finally:
                del MW.open
                del MV.open
        elif append and fmt in ('rdf', 'erdf'):
            w = W(tw, append=True)
        else:
            w = W(tw)
    except Exception as e:
        raise Violation(f'exception-escaped:{type(e).__name__}', f'constructing {W.__name__}(append={append}, via={wp.get("via")}): {e!r}')
    res = {'crashed': False, 'failed': False, 'written': 0, 'synced': 0}
    fe = wp.get('flush_every', 0)
    try:
        for i, rec in enumerate(records):
            try:
                w.write(rec)
            except (ValueError, TypeError):
                continue
            except (SimCrash, OSError):
                raise
            except Exception:
                if _is_record(rec):
                    raise
                continue
            res['written'] += 1
            if fe and (i + 1) % fe == 0 and not tw.closed:
                tw.flush()
                simfile.sync()
                res['synced'] = res['written']
        w.close()
        if not tw.closed:
            tw.flush()
        simfile.sync()
        res['synced'] = res['written']
    except SimCrash:
        res['crashed'] = True
    except OSError:
        res['failed'] = True
    except Exception as e:
        raise Violation(f'exception-escaped:{type(e).__name__}', f'{W.__name__}.write/close: {e!r}')
    finally:
        # whatever is still buffered above the raw layer is volatile: make sure finalizers cannot push it later
        raw.dead = True
        try:
            tw.detach()
        except Exception:
            pass
    return res


# =============================================================================================
# "written by another program": legal re-encodings of the reference image that chython's own writers never produce

_CHG_CODE = {'  1': 3, '  2': 2, '  3': 1, '  5': -1, '  6': -2, '  7': -3}


_EXTRA_LINES = [
    lambda n: ['A  %3d' % n, 'Me'],                                 # atom alias (two lines)
    lambda n: ['V  %3d some value' % n],                            # atom value
    lambda n: ['G  %3d%3d' % (n, n), 'grp'],                        # group abbreviation (two lines)
    lambda n: ['M  STY  1   1 SUP', 'M  SAL   1  1 %3d' % n, 'M  SMT   1 Ac'],   # superatom Sgroup
    lambda n: ['M  STY  1   1 DAT', 'M  SAL   1  1 %3d' % n, 'M  SDT   1 NAME', 'M  SED   1 text'],   # data Sgroup
    lambda n: ['M  ZZZ  1 %3d   2' % n],                            # property line this reader does not know
    lambda n: ['M  SUB  1 %3d   2' % n],                            # query substitution count
    lambda n: ['M  RGP  1 %3d   1' % n],                            # R-group label
    lambda n: ['M  LIN  1 %3d   2' % n],
]


def _v2000_extras(rec, picks, header):
    """The things other programs put into a V2000 molblock around what chython writes: filled program / comment lines,
    the chiral flag, a counts line without the obsolete 999, and property lines the reader has no use for (aliases, values,
    Sgroups, unknown `M  XXX` lines) in front of `M  END`.  None of them changes the structure."""
    lines = rec.split('\n')
    out, i = [], 0
    while i < len(lines):
        ln = lines[i]
        if ln.endswith('V2000') and len(ln) >= 39 and len(out) >= 3:
            try:
                na, nb = int(ln[0:3]), int(ln[3:6])
            except ValueError:
                out.append(ln)
                i += 1
                continue
            if header & 1:
                out[-2] = '  OtherProg10022612002D'
            if header & 2:
                out[-1] = 'written by another program'
            if header & 4:
                ln = ln[:12] + '  1' + ln[15:]       # chiral flag
            if header & 8:
                ln = ln[:18] + '  0  0  0  0' + '  5' + ln[33:] if ln[30:33] == '999' else ln   # obsolete fields filled
            out.append(ln)
            j = i + 1
            while j < len(lines) and not lines[j].startswith('M  END'):
                out.append(lines[j])
                j += 1
            if na:
                for q, k in enumerate(picks):
                    out.extend(_EXTRA_LINES[k % len(_EXTRA_LINES)](1 + (k + q) % na))
            i = j
            continue
        out.append(ln)
        i += 1
    return '\n'.join(out)


def _rxn_member_count(rec, fmt):
    head = rec.split('\n$DTYPE', 1)[0]
    if fmt == 'rdf':
        return head.count('\n$MOL\n')
    return head.count('\nM  V30 BEGIN CTAB')


_EMPTY_V2000 = ['', '', '', '  0  0  0  0  0  0            999 V2000', 'M  END']
_EMPTY_V3000 = ['M  V30 BEGIN CTAB', 'M  V30 COUNTS 0 0 0 0 0', 'M  V30 BEGIN ATOM', 'M  V30 END ATOM', 'M  V30 BEGIN BOND',
                'M  V30 END BOND', 'M  V30 END CTAB']


def _rxn_unsupported_member(rec, fmt, pick, empty=False):
    """One member of a reaction record gets an atom chython cannot represent (V2000 query atom `A`, V3000 `R#`): with the
    default `ignore=True` the reader drops that member and must keep every other member in its role."""
    if not rec.startswith('$RFMT'):
        return rec, None
    n = _rxn_member_count(rec, fmt)
    if n < 2:
        return rec, None
    k = pick % n
    cut = rec.find('\n$DTYPE')
    head, tail = (rec, '') if cut < 0 else (rec[:cut], rec[cut:])
    lines = head.split('\n')
    seen = -1
    for i, ln in enumerate(lines):
        if fmt == 'rdf' and ln == '$MOL':
            seen += 1
            if seen == k and empty:
                j = i + 1
                while j < len(lines) and lines[j] != '$MOL' and not (j == len(lines) - 1 and lines[j] == ''):
                    j += 1
                return '\n'.join(lines[:i + 1] + _EMPTY_V2000 + lines[j:]) + tail, k
            if seen == k:
                j = i + 5            # $MOL, 3 header lines, counts line, first atom line
                if j < len(lines) and lines[i + 4].endswith('V2000') and int(lines[i + 4][:3] or 0) > 0:
                    lines[j] = lines[j][:31] + 'A  ' + lines[j][34:]
                    return '\n'.join(lines) + tail, k
                return rec, None
        if fmt == 'erdf' and ln.startswith('M  V30 BEGIN CTAB'):
            seen += 1
            if seen == k and empty:
                j = i
                while j < len(lines) and not lines[j].startswith('M  V30 END CTAB'):
                    j += 1
                return '\n'.join(lines[:i] + _EMPTY_V3000 + lines[j + 1:]) + tail, k
            if seen == k:
                for j in range(i + 1, len(lines)):
                    if lines[j].startswith('M  V30 BEGIN ATOM'):
                        t = lines[j + 1].split(' ')
                        # M, '', V30, index, type, ...
                        if lines[j + 1].startswith('M  V30 ') and len(t) > 4 and not lines[j + 1].startswith('M  V30 END'):
                            t[4] = 'R#'
                            lines[j + 1] = ' '.join(t)
                            return '\n'.join(lines) + tail, k
                        return rec, None
                    if lines[j].startswith('M  V30 END CTAB'):
                        return rec, None
    return rec, None


def _v3000_defaults(rec, picks):
    """V3000 atom lines with the default values written out (`CHG=0 RAD=0 MASS=0 CFG=0 VAL=0`), as some programs do."""
    toks = [t for i, t in enumerate(('CHG=0', 'RAD=0', 'MASS=0', 'CFG=0', 'VAL=0')) if (picks >> i) & 1] or ['RAD=0']
    out, inside = [], False
    for ln in rec.split('\n'):
        if ln.startswith('M  V30 BEGIN ATOM'):
            inside = True
        elif ln.startswith('M  V30 END ATOM'):
            inside = False
        elif inside and ln.startswith('M  V30 ') and not ln.endswith('-'):
            for t in toks:
                if t.split('=')[0] + '=' not in ln:
                    ln += ' ' + t
        out.append(ln)
    return '\n'.join(out)


def _bonds_sorted(rec, fmt, desc=False):
    """Bond block in the order most programs write it - by atom index - instead of chython's own (wedge bonds first).  The wedge
    of a stereo centre is then no longer the first bond line of its atom."""
    lines = rec.split('\n')
    out, i = [], 0
    while i < len(lines):
        ln = lines[i]
        if fmt in ('sdf', 'rdf') and ln.endswith('V2000') and len(ln) >= 39:
            try:
                na, nb = int(ln[0:3]), int(ln[3:6])
            except ValueError:
                out.append(ln)
                i += 1
                continue
            out.extend(lines[i:i + 1 + na])
            bl = lines[i + 1 + na:i + 1 + na + nb]
            out.extend(sorted(bl, key=lambda x: (int(x[0:3]), int(x[3:6])), reverse=desc))
            i += 1 + na + nb
            continue
        if fmt in ('esdf', 'erdf') and ln.startswith('M  V30 BEGIN BOND'):
            out.append(ln)
            j = i + 1
            bl = []
            while j < len(lines) and not lines[j].startswith('M  V30 END BOND'):
                bl.append(lines[j].split(' '))      # M, '', V30, idx, type, a1, a2, ...
                j += 1
            if all(len(t) >= 7 and t[5].isdigit() and t[6].isdigit() for t in bl):
                bl.sort(key=lambda t: (int(t[5]), int(t[6])), reverse=desc)
                for k, t in enumerate(bl, start=1):
                    t[3] = str(k)
            out.extend(' '.join(t) for t in bl)
            i = j
            continue
        out.append(ln)
        i += 1
    return '\n'.join(out)


def _v2000_props(rec, per_line):
    """Rewrite every V2000 molblock of a record the way most other programs write it: charges as `M  CHG` lines (atom block
    column zeroed) and the `M  CHG` / `M  ISO` / `M  RAD` entries grouped up to 8 per line."""
    lines = rec.split('\n')
    out, i = [], 0
    while i < len(lines):
        ln = lines[i]
        if ln.endswith('V2000') and len(ln) >= 39:
            try:
                na, nb = int(ln[0:3]), int(ln[3:6])
            except ValueError:
                out.append(ln)
                i += 1
                continue
            out.append(ln)
            chg = {}
            for k in range(na):
                a = lines[i + 1 + k]
                code = a[36:39]
                if code in _CHG_CODE:
                    chg[k + 1] = _CHG_CODE[code]
                    a = a[:36] + '  0' + a[39:]
                out.append(a)
            out.extend(lines[i + 1 + na:i + 1 + na + nb])
            j = i + 1 + na + nb
            props = {'CHG': dict(chg), 'ISO': {}, 'RAD': {}}
            rest = []
            while j < len(lines) and not lines[j].startswith('M  END'):
                pl = lines[j]
                if pl.startswith(('M  CHG', 'M  ISO', 'M  RAD')):
                    for e in range(int(pl[6:9])):
                        props[pl[3:6]][int(pl[10 + 8 * e:13 + 8 * e])] = int(pl[14 + 8 * e:17 + 8 * e])
                else:
                    rest.append(pl)
                j += 1
            out.extend(rest)
            # isotopes also as mass difference in the atom block (both forms at once is legal; CDK writes files like that)
            from chython.periodictable import Element
            for n, iso in props['ISO'].items():
                k = len(out) - len(rest) - nb - na + n - 1
                a = out[k]
                try:
                    delta = iso - Element.from_symbol(a[31:34].strip())().mdl_isotope
                except Exception:
                    continue
                if -3 <= delta <= 4 and delta != 0:
                    out[k] = a[:34] + f'{delta:2d}' + a[36:]
            for key in ('CHG', 'ISO', 'RAD'):
                items = sorted(props[key].items())
                for c in range(0, len(items), per_line):
                    part = items[c:c + per_line]
                    out.append(f'M  {key}{len(part):3d}' + ''.join(f' {n:3d} {v:3d}' for n, v in part))
            i = j
            continue
        out.append(ln)
        i += 1
    return '\n'.join(out)


def _mrv_compact(rec):
    """Rewrite every <atomArray> of an MRV record into the compact attribute-list form other programs (ChemAxon's own
    writer for small molecules) use: <atomArray atomID="a1 a2" elementType="C O" x2="..." y2="..." .../>."""
    import re

    def one(m):
        atoms = re.findall(r'<atom ([^>]*?)/>', m.group(1))
        if not atoms:
            return m.group(0)
        cols = {'id': [], 'elementType': [], 'x2': [], 'y2': [], 'mrvMap': [], 'formalCharge': [], 'radical': [], 'isotope': []}
        for a in atoms:
            d = dict(re.findall(r'(\w+)="([^"]*)"', a))
            cols['id'].append(d['id'])
            cols['elementType'].append(d['elementType'])
            cols['x2'].append(d.get('x2', '0'))
            cols['y2'].append(d.get('y2', '0'))
            cols['mrvMap'].append(d.get('mrvMap', '0'))
            cols['formalCharge'].append(d.get('formalCharge', '0'))
            cols['radical'].append(d.get('radical', '0'))
            cols['isotope'].append(d.get('isotope', '0'))
        out = f'<atomArray atomID="{" ".join(cols["id"])}" elementType="{" ".join(cols["elementType"])}" ' \
              f'x2="{" ".join(cols["x2"])}" y2="{" ".join(cols["y2"])}"'
        for k in ('mrvMap', 'formalCharge', 'radical', 'isotope'):
            if any(v != '0' for v in cols[k]):
                out += f' {k}="{" ".join(cols[k])}"'
        return out + '/>'
    return re.sub(r'<atomArray>(.*?)</atomArray>', one, rec, flags=re.S)


def apply_foreign(fmt, text, extents, spec):
    kind = spec.get('kind')
    pieces, new_ext, pos, last = [], [], 0, 0
    for (a, b) in extents:
        pieces.append(text[last:a])
        pos += a - last
        rec = text[a:b]
        if kind == 'v3000wrap' and fmt in ('esdf', 'erdf'):
            out = []
            width = spec.get('width', 40)
            for line in rec.split('\n'):
                # only atom and bond lines are wrapped (the lines real programs wrap); COUNTS / BEGIN / END stay whole
                while line.startswith('M  V30 ') and len(line) > width and line[7:8].isdigit():
                    k = line.rfind(' ', 8, width)
                    if k <= 8:
                        break
                    if spec.get('blank_first'):
                        out.append(line[:k] + '-')            # continuation line starts with the blank
                        line = 'M  V30 ' + line[k:]
                    else:
                        out.append(line[:k + 1] + '-')        # blank stays in front of the dash
                        line = 'M  V30 ' + line[k + 1:]
                out.append(line)
            rec = '\n'.join(out)
        if kind == 'mrv_compact' and fmt == 'mrv':
            rec = _mrv_compact(rec)
        if kind == 'v2000props' and fmt in ('sdf', 'rdf'):
            rec = _v2000_props(rec, spec.get('per_line', 8))
        if kind == 'rxn_unsupported_member' and fmt in ('rdf', 'erdf'):
            rec, k = _rxn_unsupported_member(rec, fmt, spec.get('member', 0), bool(spec.get('empty')))
            if k is not None:
                spec.setdefault('_dropped', {})[len(new_ext)] = k
        if kind == 'v3000_defaults' and fmt in ('esdf', 'erdf'):
            rec = _v3000_defaults(rec, int(spec.get('picks_mask', 2)))
        if kind == 'bonds_sorted' and fmt != 'mrv':
            rec = _bonds_sorted(rec, fmt, bool(spec.get('desc')))
        if kind == 'v2000extras' and fmt in ('sdf', 'rdf'):
            rec = _v2000_extras(rec, spec.get('picks', [0]), spec.get('header', 0))
        pieces.append(rec)
        new_ext.append((pos, pos + len(rec)))
        pos += len(rec)
        last = b
    pieces.append(text[last:])
    text = ''.join(pieces)
    if kind == 'no_final_delimiter' and fmt in ('sdf', 'esdf') and new_ext:
        a, b = new_ext[-1]
        tail = text[a:b]
        if tail.endswith('$$$$\n'):
            tail = tail[:-5]
            if spec.get('no_newline') and tail.endswith('\n'):
                tail = tail[:-1]
            text = text[:a] + tail
            new_ext[-1] = (a, a + len(tail))
    if kind == 'empty_record' and new_ext:
        # a delimiter line duplicated between two records: an empty record, which readers must skip and indices must count
        k = spec.get('after', 0) % len(new_ext)
        a, b = new_ext[k]
        ins = '$$$$\n' if fmt in ('sdf', 'esdf') else ('$MFMT\n' if fmt in ('rdf', 'erdf') else '')
        if ins and fmt in ('rdf', 'erdf') and k + 1 == len(new_ext) and spec.get('no_newline'):
            # a file cut right after the format line of a record that never got written: nothing follows the delimiter
            text = text + ins
        elif ins and (fmt in ('sdf', 'esdf') or k + 1 < len(new_ext)):
            pos = b if fmt in ('sdf', 'esdf') else new_ext[k + 1][0]
            text = text[:pos] + ins + text[pos:]
            new_ext = [(x, y) if y <= pos else (x + len(ins), y + len(ins)) for x, y in new_ext]
    if kind == 'rireg' and fmt in ('rdf', 'erdf'):
        # delimiter lines with registry numbers: `$RFMT $RIREG 12`, `$MFMT $MIREG 7` (RDfile specification)
        import re as _re
        cnt = [0]

        def _reg(m):
            cnt[0] += 1
            return m.group(1) + (' $RIREG %d' % cnt[0] if m.group(1) == '$RFMT' else ' $MIREG %d' % cnt[0]) + '\n'
        pieces2, ne, pos2, last2 = [], [], 0, 0
        for (a, b) in new_ext:
            pieces2.append(text[last2:a])
            pos2 += a - last2
            rec = _re.sub(r'^(\$[RM]FMT)\n', _reg, text[a:b], count=1, flags=_re.M)
            pieces2.append(rec)
            ne.append((pos2, pos2 + len(rec)))
            pos2 += len(rec)
            last2 = b
        pieces2.append(text[last2:])
        text, new_ext = ''.join(pieces2), ne
    if kind == 'crlf':
        # every line feed becomes CR LF: offsets move by the number of line feeds in front of them
        import bisect
        nl = [i for i, c in enumerate(text) if c == '\n']
        shift = lambda x: x + bisect.bisect_left(nl, x)   # noqa: E731
        new_ext = [(shift(a), shift(b)) for a, b in new_ext]
        text = text.replace('\n', '\r\n')
    return text, new_ext


# =============================================================================================
# stored-byte damage with per-byte ownership

class Image:
    def __init__(self, data: bytes, extents):
        self.data = bytearray(data)
        self.owner = [-1] * len(data)
        for i, (a, b) in enumerate(extents):
            for k in range(a, min(b, len(data))):
                self.owner[k] = i
        self.dmg = bytearray(len(data))
        self.n = len(extents)

    def _mark(self, a, b):
        for k in range(max(0, a), min(len(self.dmg), b)):
            self.dmg[k] = 1

    def lines(self):
        out, pos = [], 0
        d = self.data
        while pos < len(d):
            nl = d.find(b'\n', pos)
            end = len(d) if nl < 0 else nl + 1
            out.append((pos, end))
            pos = end
        return out

    def apply(self, op):
        d = self.data
        if not d:
            return 'noop'
        kind = op['kind']
        pos = int(op.get('pos', 0.5) * (len(d) - 1))
        if kind == 'flip':
            d[pos] ^= 1 << (op.get('bit', 0) % 8)
            self._mark(pos, pos + 1)
        elif kind == 'set':
            d[pos] = op.get('byte', 48) % 256
            self._mark(pos, pos + 1)
        elif kind == 'delbyte':
            del d[pos]
            del self.owner[pos]
            del self.dmg[pos]
            self._mark(pos - 1, pos + 1)
        elif kind == 'insbyte':
            d.insert(pos, op.get('byte', 48) % 256)
            self.owner.insert(pos, self.owner[pos] if pos < len(self.owner) else -1)
            self.dmg.insert(pos, 1)
            self._mark(pos - 1, pos + 2)
        elif kind in ('delline', 'dupline', 'truncline'):
            ls = self.lines()
            a, b = ls[int(op.get('pos', 0.5) * (len(ls) - 1))]
            if kind == 'delline':
                del d[a:b]
                del self.owner[a:b]
                del self.dmg[a:b]
                self._mark(a - 1, a + 1)
            elif kind == 'dupline':
                seg = bytes(d[a:b])
                if not seg.endswith(b'\n'):
                    seg += b'\n'
                d[b:b] = seg
                self.owner[b:b] = [self.owner[a]] * len(seg)
                self.dmg[b:b] = b'\x01' * len(seg)
                self._mark(a, b + len(seg))
            else:
                keep = a + int((b - a - 1) * op.get('frac', 0.5))
                if keep < b - 1:
                    del d[keep:b - 1]
                    del self.owner[keep:b - 1]
                    del self.dmg[keep:b - 1]
                    self._mark(keep - 1, keep + 1)
        elif kind == 'zerosector':
            a = pos - pos % 512
            b = min(len(d), a + 512)
            d[a:b] = b'\x00' * (b - a)
            self._mark(a, b)
        elif kind == 'swapsectors':
            ns = len(d) // 512
            if ns >= 2:
                s1 = int(op.get('pos', 0.5) * (ns - 1))
                s2 = (s1 + 1 + op.get('k', 0)) % ns
                if s1 != s2:
                    a1, a2 = s1 * 512, s2 * 512
                    d[a1:a1 + 512], d[a2:a2 + 512] = bytes(d[a2:a2 + 512]), bytes(d[a1:a1 + 512])
                    self._mark(a1, a1 + 512)
                    self._mark(a2, a2 + 512)
        elif kind == 'xmlattr':
            # MRV: damage that keeps the document well-formed (a non-recovering XML parser cannot resynchronise otherwise):
            # an attribute value is replaced or an attribute is removed
            import re
            ms = list(re.finditer(rb' (\w+)="([^"<&]*)"', bytes(d)))
            if not ms:
                return 'noop'
            m = ms[int(op.get('pos', 0.5) * (len(ms) - 1))]
            a, b = m.span()
            if op.get('mode', 0) % 3 == 0:
                new = b''                                         # attribute removed
            elif op.get('mode', 0) % 3 == 1:
                new = b' ' + m.group(1) + b'="' + op.get('value', 'x').encode() + b'"'
            else:
                new = b' ' + m.group(1) + b'=""'
            own = self.owner[a]
            d[a:b] = new
            self.owner[a:b] = [own] * len(new)
            self.dmg[a:b] = b'\x01' * len(new)
            self._mark(a - 1, a + len(new) + 1)
        elif kind == 'tear':
            cut = pos
            if op.get('sector'):
                cut -= cut % 512
            tail = len(d) - cut
            del d[cut:]
            del self.owner[cut:]
            del self.dmg[cut:]
            fill = op.get('fill', 'cut')
            if fill in ('zero', 'garbage'):
                seg = b'\x00' * tail if fill == 'zero' else bytes((37 * i + 11) % 251 for i in range(tail))
                d += seg
                self.owner += [-2] * tail
                self.dmg += b'\x01' * tail
            self.torn_at = cut
            if cut > 0:
                self._mark(cut - 1, cut)   # the byte in front of the tear lost its successor
        return kind

    def intact(self, fmt):
        """Indices of records none of whose own bytes nor delimiters are damaged (DESIGN 6.2)."""
        first, last, bad = {}, {}, set()
        for k, o in enumerate(self.owner):
            if o < 0:
                continue
            if o not in first:
                first[o] = k
            last[o] = k
            if self.dmg[k]:
                bad.add(o)
        out = []
        d = self.data
        for i in range(self.n):
            if i in bad or i not in first:
                continue
            a, b = first[i], last[i] + 1
            if any(self.owner[k] != i for k in range(a, b)):
                continue   # foreign bytes (swapped sector / duplicated line of another record) inside
            if fmt in ('sdf', 'esdf'):
                if i > 0 or a > 0:
                    lead = bytes(d[max(0, a - 6):a])
                    if a < 6 or lead != b'\n$$$$\n' or any(self.dmg[a - 6:a]):
                        if not (a == 0):
                            continue
            elif fmt in ('rdf', 'erdf'):
                if a > 0 and (d[a - 1:a] != b'\n' or self.dmg[a - 1]):
                    continue   # its own $RFMT/$MFMT line no longer starts a line: it cannot be seen as a delimiter
                if b < len(d):
                    trail = bytes(d[b:b + 6])
                    if trail not in (b'$RFMT\n', b'$MFMT\n') or any(self.dmg[b:b + 6]):
                        continue
                if d[b - 1:b] != b'\n':
                    continue
            elif fmt == 'mrv':
                if getattr(self, 'torn_at', None) is not None and b > self.torn_at:
                    continue
            out.append(i)
        return out


# =============================================================================================
# reading

ALLOWED_ESCAPES = ()


def open_reader(fmt, simfile, rp):
    """Two ways in: via='wrapper' - the caller (this harness) hands over an opened stream, as a careful caller of a
    possibly damaged file would (errors='replace'); via='open' - the reader is given a *path* and opens the file
    itself; the module-level name `open` it uses is rebound to the simulated disk, so encoding/error handling are the
    library's own choice."""
    raw = RawReader(simfile, {'chunk': rp.get('chunk'), 'error_at_byte': rp.get('error_at_byte'), 'budget': rp.get('budget'),
                              'noseek': bool(rp.get('noseek')) and rp.get('via') in (None, 'wrapper')})
    kw = {}
    if rp.get('remap'):
        kw['remap'] = True
    if rp.get('calc_ct'):
        kw['calc_cis_trans'] = True
    if rp.get('ignore_stereo'):
        kw['ignore_stereo'] = True
    if rp.get('buffer_size') and fmt != 'mrv':
        kw['buffer_size'] = rp['buffer_size']
    bs = rp.get('bufsize', 8192)
    if rp.get('via') == 'pathlib':
        # a real file handed over as pathlib.Path (the readers open it through Path.open; no raw-level faults here)
        from pathlib import Path
        d = _scratch()
        path = os.path.join(d, 'pathlib.' + ('mrv' if fmt == 'mrv' else 'sdf' if fmt in ('sdf', 'esdf') else 'rdf'))
        with open(path, 'wb') as f:
            f.write(bytes(simfile.data))
        if fmt == 'mrv':
            return _cls('MRVRead')(Path(path), **kw), raw
        return _cls(FORMATS[fmt]['reader'])(Path(path), **kw), raw
    if rp.get('via') == 'open':
        import chython.files.mdl.read as MR
        import chython.files.MRVrw as MV

        def fake_open(file, mode='r', buffering=-1, encoding=None, errors=None, newline=None, **_):
            br = io.BufferedReader(raw, buffer_size=bs)
            if 'b' in mode:
                return br
            tw = io.TextIOWrapper(br, encoding=encoding or 'utf-8', errors=errors, newline=newline)
            return tw
        MR.open = fake_open
        MV.open = fake_open
        try:
            if fmt == 'mrv':
                return _cls('MRVRead')('/simdisk/file.mrv', **kw), raw
            return _cls(FORMATS[fmt]['reader'])('/simdisk/file', **kw), raw
        finally:
            del MR.open
            del MV.open
    br = io.BufferedReader(raw, buffer_size=bs)
    if fmt == 'mrv':
        return _cls('MRVRead')(br, **kw), raw
    tr = io.TextIOWrapper(br, encoding='utf-8', errors='replace', newline=None)
    return _cls(FORMATS[fmt]['reader'])(tr, **kw), raw


def sequential_read(fmt, simfile, rp):
    """Returns (records, escaped_exception_or_None)."""
    reader, raw = open_reader(fmt, simfile, rp)
    mode = rp.get('mode', 'for')
    out = []
    exc = None
    tells = []

    def _tell(step_exact):
        # the record counter: strictly increasing over the records handed out, and exactly +1 per read_structure() call
        # whether the call returned a record or refused a damaged one
        try:
            t = reader.tell()
        except Exception as e:
            raise Violation(f'exception-escaped:{type(e).__name__}', f'{fmt}: tell() raised {e!r} during {mode} reading')
        if tells and (t <= tells[-1] or (step_exact and t != tells[-1] + 1)):
            raise Violation('record-counter-wrong', f'{fmt}: tell() went {tells[-1]} -> {t} during {mode} reading (call {len(tells) + 1})')
        if not tells and step_exact and t != 1:
            raise Violation('record-counter-wrong', f'{fmt}: tell() is {t} after the first read_structure() call')
        tells.append(t)

    try:
        if mode == 'for':
            for r in reader:
                out.append(r)
                _tell(False)
        elif mode == 'read':
            out = reader.read()
        elif mode == 'readn':
            while True:
                chunk = reader.read(rp.get('n', 2))
                out.extend(chunk)
                if len(chunk) < rp.get('n', 2):
                    break
        elif mode == 'next':
            while True:
                try:
                    out.append(next(reader))
                    _tell(False)
                except StopIteration:
                    break
        elif mode == 'mixed':
            # advancing calls interleaved with calls on the *current* record (the default of read_structure / read_metadata),
            # also right after a call that refused a damaged or empty record.  Whatever a call returns must be the record the
            # counter points at, as a plain sequential pass over the same bytes sees it.
            ref, _ = open_reader(fmt, SimFile(bytes(simfile.data)), {k: rp[k] for k in ('remap', 'calc_ct', 'ignore_stereo', 'buffer_size') if k in rp})
            seq = []
            while len(seq) < 5000:
                try:
                    seq.append(('ok', record_view(ref.read_structure(current=False), fmt)))
                except EOFError:
                    break
                except Exception as e:
                    seq.append(('err', type(e).__name__))
            seen = {}

            def check(rec, what):
                t = reader.tell()
                v = record_view(rec, fmt)
                if not 1 <= t <= len(seq) or seq[t - 1][0] != 'ok' or first_diff(seq[t - 1][1], v):
                    raise Violation('current-record-wrong', f'{fmt}: {what} returned a record that is not record {t - 1} of the file '
                                                            f'(tell()={t}, sequential pass sees {seq[t - 1][0] if 1 <= t <= len(seq) else "nothing"} there)')
                seen[t - 1] = rec
            pat = rp.get('pattern') or [1, 0, 2]
            k = 0
            while True:
                try:
                    check(reader.read_structure(current=False), 'read_structure(current=False)')
                except EOFError:
                    break
                except (ValueError, LookupError):
                    pass
                a = pat[k % len(pat)]
                k += 1
                try:
                    if a == 2:
                        reader.read_metadata()
                    if a:
                        check(reader.read_structure(), 'read_structure() after ' + ('read_metadata()' if a == 2 else 'an advancing call'))
                except EOFError:
                    break
                except (ValueError, LookupError):
                    pass
            out = [seen[i] for i in sorted(seen)]
        elif mode == 'structure':
            while True:
                try:
                    out.append(reader.read_structure(current=False))
                    _tell(True)
                except EOFError:
                    break
                except (ValueError, LookupError):
                    _tell(True)   # the caller's own loop skips what iteration skips
    except NoProgress:
        raise Violation('no-progress', f'reader issued more than {rp.get("budget")} raw reads without finishing')
    except Violation:
        raise
    except RuntimeError as e:
        if 'StopIteration' in str(e) or isinstance(e.__cause__, StopIteration):
            exc = e
        else:
            exc = e
    except Exception as e:
        exc = e
    finally:
        try:
            reader.close(force=True) if rp.get('via') in ('pathlib',) else None
        except Exception:
            pass
    return out, exc, raw


def seq_outcomes(fmt, text_bytes, calc_ct=False):
    """Per record index: ('ok', view) | ('err', type) as a plain sequential reader sees them."""
    sf = SimFile(text_bytes)
    reader, _ = open_reader(fmt, sf, {'calc_ct': calc_ct})
    out = []
    while True:
        try:
            rec = reader.read_structure(current=False)
            out.append(('ok', record_view(rec, fmt)))
        except EOFError:
            break
        except ValueError as e:
            out.append(('err', 'ValueError'))
        except Exception as e:
            out.append(('err', type(e).__name__))
        if len(out) > 5000:
            break
    return out


def compare_views(exp, act):
    """None or a first-difference message.  Stereo of a molecule is compared only when the expected side is inside
    the compared domain; member-molecule names/meta of reactions are not compared (no slot in the formats)."""
    def strip(v, e=None):
        v = dict(v)
        if v.get('kind') == 'rxn':
            for role in 'rpa':
                v[role] = [dict(m) for m in v[role]]
        return v
    exp, act = strip(exp), strip(act)
    if 'log' not in exp:
        act.pop('log', None)

    def fix(e, a):
        if e.get('stereo', 0) is None:
            a['stereo'] = None
        if ('mname' in e) != ('mname' in a):      # files with V2000 and V3000 records: a member title exists in one form only
            e.pop('mname', None)
            a.pop('mname', None)
    if exp.get('kind') == 'rxn' and act.get('kind') == 'rxn':
        for role in 'rpa':
            for e, a in zip(exp[role], act[role]):
                fix(e, a)
    elif exp.get('kind') == 'mol' and act.get('kind') == 'mol':
        fix(exp, act)
    return first_diff(exp, act)


# =============================================================================================
# one run

def execute(trace, probes=None, scratch=None):
    """Pure function of (trace, code).  Returns violation dict or None."""
    probes = probes if probes is not None else Counter()
    try:
        _execute(trace, probes, scratch)
    except Violation as v:
        return {'class': v.cls, 'detail': v.detail}
    return None


_OTHER_VERSION = {'sdf': 'esdf', 'esdf': 'sdf', 'rdf': 'erdf', 'erdf': 'rdf'}
_NO_LAYOUT = {}     # id(molecule) -> molecule: records not born from a file with a real 2D layout (kept alive for the run)


def _build(spec):
    """build_record + book-keeping of which molecules carry coordinates that mean something."""
    from chython.containers import ReactionContainer
    r = build_record(spec)
    if isinstance(r, ReactionContainer):
        for role, ms in (('r', r.reactants), ('p', r.products), ('a', r.reagents)):
            for m, ms_spec in zip(ms, spec[role]):
                if ms_spec['k'] != 'file':
                    _NO_LAYOUT[id(m)] = m
    elif spec['k'] in ('smi', 'join'):
        _NO_LAYOUT[id(r)] = r
    return r


def expected_view(r, fmt, calc_ct):
    """View a record must read back as.  With `calc_cis_trans=True` the reader derives cis/trans labels from the coordinates
    in the file; for records born from SMILES the coordinates are zeros plus a few seeded extreme values (a number-format
    workload, not a layout), rounded by the writer - what they imply is not a property of the record, so configuration is
    compared only for records that come with a real layout (the repository's files)."""
    from chython.containers import ReactionContainer
    v = record_view(r, fmt)
    if calc_ct:
        if isinstance(r, ReactionContainer):
            for role, ms in (('r', r.reactants), ('p', r.products), ('a', r.reagents)):
                for mv, m in zip(v[role], ms):
                    if id(m) in _NO_LAYOUT:
                        mv['stereo'] = None
        elif id(r) in _NO_LAYOUT:
            v['stereo'] = None
    return v


def _build_all(trace, probes):
    recs, specs = [], []
    _NO_LAYOUT.clear()
    for spec in trace['records']:
        try:
            r = _build(spec)
        except Unbuildable:
            probes['unbuildable'] += 1
            continue
        from chython.containers import ReactionContainer
        if isinstance(r, ReactionContainer) and not FORMATS[trace['fmt']]['rxn']:
            continue
        if spec['k'] == 'bad':
            probes['bad_records_offered'] += 1
        recs.append(r)
        specs.append(spec)
    return recs


def _check_no_escape(exc, allowed_types, context):
    if exc is None:
        return
    if isinstance(exc, allowed_types):
        return
    tb = traceback.extract_tb(exc.__traceback__)
    where = tb[-1].name if tb else '?'
    raise Violation(f'exception-escaped:{type(exc).__name__}', f'{context}: {exc!r} in {where}')


def _execute(trace, probes, scratch):
    fmt = trace['fmt']
    records = _build_all(trace, probes)
    if not records:
        probes['empty_run'] += 1
        return
    wp = trace.get('write') or {}
    text, extents, kept, footer, sim_time = reference_write(fmt, records, wp.get('clock', [60]))
    probes['sim_time_s'] += sim_time
    all_records = records
    records = [records[i] for i in kept]
    if not records:
        return
    expected = [expected_view(r, fmt, bool(trace.get('calc_ct'))) for r in records]
    foreign = trace.get('foreign')
    if foreign and foreign.get('kind') == 'mixed_versions' and fmt in _OTHER_VERSION:
        # one file holding V2000 and V3000 records side by side (readers take the version from each counts line)
        o = _OTHER_VERSION[fmt]
        text2, ext2, kept2, _, _ = reference_write(o, all_records, wp.get('clock', [60]))
        if kept2 == kept and len(ext2) == len(extents):
            pieces, new_ext, pos, mask = [], [], 0, int(foreign.get('mask', 0b1010))
            for i, (a, b) in enumerate(extents):
                if (mask >> (i % 12)) & 1:
                    piece = text2[ext2[i][0]:ext2[i][1]]
                    expected[i] = expected_view(records[i], o, bool(trace.get('calc_ct')))
                    probes['mixed_version_records'] += 1
                else:
                    piece = text[a:b]
                pieces.append(piece)
                new_ext.append((pos, pos + len(piece)))
                pos += len(piece)
            text, extents = ''.join(pieces), new_ext
    if foreign:
        foreign = dict(foreign)
        foreign.pop('_dropped', None)
        try:
            text, extents = apply_foreign(fmt, text, extents, foreign)
        except (ValueError, IndexError) as e:
            # the transforms parse the fault-free output of chython's own writer by the published column layout
            raise Violation('writer-output-malformed', f'{fmt}: {foreign["kind"]} could not parse the written record: {e!r}')
        probes['foreign:' + foreign['kind']] += 1
        for ri, k in (foreign.get('_dropped') or {}).items():
            # the member the reader has to drop (file order: reactants, products, agents); everything else stays in its role
            e = expected[ri]
            for role in 'rpa':
                if k < len(e[role]):
                    e[role] = e[role][:k] + e[role][k + 1:]
                    break
                k -= len(e[role])
            probes['rxn_member_made_unsupported'] += 1
    for e in expected:
        if foreign:
            e.pop('log', None)     # other programs' forms may legitimately make the parser note something
        else:
            e['log'] = False       # what chython wrote itself must be read without a complaint of the parser (an extra metadata key)
    ref = text.encode('utf-8')
    bext = _byte_extents(text, extents)      # the disk image is bytes; titles and metadata may hold non-ASCII text
    probes['records_written'] += len(records)
    probes['fmt:' + fmt] += 1

    # ---- write phase on the simulated disk
    sf = SimFile()
    if foreign:
        sf.data += ref          # another program wrote this file; nothing of chython's writers is involved
        sf.sync()
        res = {'crashed': False, 'failed': False, 'written': len(records), 'synced': len(records)}
    else:
        res = simulated_write(fmt, records, wp, sf)
    for k, v in sf.stats.items():
        if v and k in ('short_writes', 'write_errors'):
            probes['fault:' + k] += v
    img = None
    if res['crashed']:
        probes['fault:crash'] += 1
        c = wp.get('crash') or {}
        pre = len(sf.data)
        cut = sf.crash(c.get('cut_frac', 0.5), c.get('fill', 'cut'), c.get('sector', False))
        img = Image(ref[:cut], bext)
        img.torn_at = cut
        if len(sf.data) > cut:
            img.data += sf.data[cut:]
            img.owner += [-2] * (len(sf.data) - cut)
            img.dmg += b'\x01' * (len(sf.data) - cut)
        if cut > 0:
            img._mark(cut - 1, cut)
        if bytes(sf.data[:cut]) != ref[:cut]:
            raise Violation('writer-output-differs-by-sink', 'bytes on the simulated disk are not a prefix of the reference image')
        probes['tear_class:' + _tear_class(ref, bext, cut, fmt)] += 1
    elif res['failed']:
        probes['fault:write_error_escaped'] += 1
        n = len(sf.data)
        if bytes(sf.data) != ref[:n]:
            raise Violation('writer-output-differs-by-sink', 'bytes after a write error are not a prefix of the reference image')
        img = Image(ref[:n], bext)
        img.torn_at = n
        if n > 0:
            img._mark(n - 1, n)
    else:
        if bytes(sf.data) != ref:
            raise Violation('writer-output-differs-by-sink', f'fault-free simulated write differs from reference image '
                                                   f'({len(sf.data)} vs {len(ref)} bytes)')
        img = Image(ref, bext)

    # ---- optional append after reopen
    appended = []
    if trace.get('append') and fmt != 'mrv':
        arecs = []
        for spec in trace['append']:
            try:
                r = _build(spec)
            except Unbuildable:
                continue
            from chython.containers import ReactionContainer
            if isinstance(r, ReactionContainer) and not FORMATS[fmt]['rxn']:
                continue
            arecs.append(r)
        if arecs:
            sf2 = SimFile(bytes(img.data))
            start = len(sf2.data)
            torn = res['crashed'] or res['failed']
            simulated_write(fmt, arecs, {'bufsize': wp.get('bufsize', 8192), 'clock': wp.get('clock', [60]),
                                         'via': wp.get('append_via')}, sf2, append=(start > 0))
            # extents of appended records from a reference append
            buf = io.StringIO()
            _patch_clock(SimClock(steps=wp.get('clock', [60])))
            w = _cls(FORMATS[fmt]['writer'])(buf, append=True) if (fmt in ('rdf', 'erdf') and start > 0) else _cls(FORMATS[fmt]['writer'])(buf)
            ext2 = []
            for r in arecs:
                s0 = buf.tell()
                try:
                    w.write(r)
                except (ValueError, TypeError):
                    continue
                except Exception:
                    if _is_record(r):
                        raise
                    continue
                v = buf.getvalue()
                ext2.append((start + len(v[:s0].encode()), start + len(v.encode())))
                appended.append(r)
            w.close()
            if bytes(sf2.data[start:]) != buf.getvalue().encode():
                raise Violation('writer-output-differs-by-sink', 'appended bytes differ from the reference append')
            base = img.n
            img.data += sf2.data[start:]
            for j, (a, b) in enumerate(ext2):
                img.owner += [base + j] * (b - a)
            img.owner += [-1] * (len(img.data) - len(img.owner))
            img.dmg += b'\x00' * (len(img.data) - len(img.dmg))
            img.n += len(ext2)
            if torn and ext2:
                # the first appended record is adjacent to the tear: delimiter-framed formats cannot protect it
                a, b = ext2[0]
                img._mark(a, a + 1)
                probes['append_onto_torn_tail'] += 1
            expected += [expected_view(r, fmt, bool(trace.get('calc_ct'))) for r in appended]
            if hasattr(img, 'torn_at') and not torn:
                del img.torn_at
            elif torn and fmt != 'mrv':
                img.torn_at = None

    # ---- stored-byte damage
    damaged = False
    for op in trace.get('damage') or []:
        if fmt == 'mrv' and op['kind'] not in ('tear', 'xmlattr'):
            continue
        if fmt != 'mrv' and op['kind'] == 'xmlattr':
            continue
        k = img.apply(op)
        probes['fault:damage:' + k] += 1
        damaged = True
    data = bytes(img.data)
    try:
        data.decode('utf-8')
    except UnicodeDecodeError:
        probes['invalid_utf8_created'] += 1
    faulty = damaged or res['crashed'] or res['failed']
    intact = img.intact(fmt) if faulty else list(range(img.n))
    probes['intact_records'] += len(intact)
    probes['lost_or_damaged_records'] += img.n - len(intact)

    # ---- the string entry points mdl_mol(text) / mdl_rxn(text) on the blocks of a clean file
    if not faulty and not trace.get('append') and fmt != 'mrv' and not foreign:
        from chython import mdl_mol, mdl_rxn
        for i, (a, b) in enumerate(extents):
            block = text[a:b]
            want = dict(expected[i])
            want['meta'] = {}
            want['unparsed'] = False
            try:
                if want['kind'] == 'mol':
                    if fmt in ('rdf', 'erdf'):
                        block = block[block.index('$MFMT\n') + 6:]
                    end = block.find('\nM  END\n') + 1    # a line that *starts* with M  END (titles may contain it)
                    got = record_view(mdl_mol(block[:end + 7], calc_cis_trans=bool(trace.get('calc_ct'))), fmt)
                else:
                    block = block[block.index('$RXN'):]
                    end = block.find('\n$DTYPE') + 1 if '\n$DTYPE' in block else -1
                    got = record_view(mdl_rxn(block if end < 0 else block[:end], calc_cis_trans=bool(trace.get('calc_ct'))), fmt)
            except Exception as e:
                raise Violation(f'exception-escaped:{type(e).__name__}', f'{fmt} record {i} through mdl_mol/mdl_rxn: {e!r}')
            got['meta'] = {}
            got['unparsed'] = False
            d = compare_views(want, got)
            if d:
                raise Violation(f'roundtrip-mismatch:{diff_field(d)}', f'{fmt} record {i} through mdl_mol/mdl_rxn: {d}')
            probes['text_entry_points_equal'] += 1

    # ---- read phase(s)
    for rp in trace.get('reads') or [{}]:
        rp = dict(rp)
        rp['calc_ct'] = bool(trace.get('calc_ct'))
        if rp.get('indexed'):
            if faulty or fmt == 'mrv':
                continue
            try:
                _indexed_phase(fmt, data, expected, rp, probes, scratch)
            except Violation:
                raise
            except Exception as e:
                tb = traceback.extract_tb(e.__traceback__)
                raise Violation(f'exception-escaped:{type(e).__name__}', f'{fmt} random access: {e!r} in {tb[-1].name if tb else "?"}')
            continue
        disk = SimFile(data)
        chunk = rp.get('chunk') or 8192
        rp['budget'] = 4 * (len(data) // max(1, min(chunk, rp.get('bufsize', 8192))) + 1) + 1000
        if rp.get('error_at_frac') is not None:
            rp['error_at_byte'] = int(rp['error_at_frac'] * max(1, len(data) - 1))
        out, exc, raw = sequential_read(fmt, disk, rp)
        for k, v in disk.stats.items():
            if v and k in ('short_reads', 'read_errors'):
                probes['fault:' + k] += v
        probes['raw_reads'] += raw.calls
        allowed = []
        if rp.get('error_at_byte') is not None:
            allowed.append(OSError)
        if rp.get('buffer_size'):
            from chython.exceptions import BufferOverflow
            allowed.append(BufferOverflow)
        if fmt == 'mrv' and (res['crashed'] or res['failed'] or any(op['kind'] == 'tear' for op in trace.get('damage') or [])):
            from lxml.etree import XMLSyntaxError
            allowed.append(XMLSyntaxError)
        if exc is not None:
            probes['escaped:' + type(exc).__name__] += 1
        _check_no_escape(exc, tuple(allowed), f'{fmt} {rp.get("mode", "for")}')
        views = [record_view(r, fmt) for r in out]
        if rp.get('remap'):
            # documented knob "Remap atom numbers started from one": molecules must come back numbered 1..n in file order with
            # everything else unchanged (reactions are renumbered across members; only no-escape and liveness apply to them)
            if not faulty and exc is None and fmt != 'mrv':
                if len(views) != len(expected):
                    raise Violation('roundtrip-mismatch:count', f'{fmt} remap=True: wrote {len(expected)} records, read {len(views)}')
                for i, (e, a) in enumerate(zip(expected, views)):
                    if e.get('kind') != 'mol' or a.get('kind') != 'mol':
                        continue
                    mp = {n: k for k, (n, *_) in enumerate(e['atoms'], start=1)}
                    want = dict(e)
                    want['atoms'] = [(mp[n], *rest) for n, *rest in e['atoms']]
                    want['bonds'] = sorted((min(mp[x], mp[y]), max(mp[x], mp[y]), o) for x, y, o in e['bonds'])
                    want['stereo'] = None
                    got = dict(a)
                    got['stereo'] = None
                    d = compare_views(want, got)
                    if d:
                        raise Violation(f'roundtrip-mismatch:{diff_field(d)}', f'{fmt} remap=True record {i}: {d}')
                    probes['remap_roundtrips_equal'] += 1
            continue
        partial = exc is not None
        if not faulty and not partial:
            if len(views) != len(expected):
                raise Violation('roundtrip-mismatch:count', f'{fmt}: wrote {len(expected)} records, read {len(views)}')
            for i, (e, a) in enumerate(zip(expected, views)):
                if rp.get('ignore_stereo'):
                    # documented knob "Ignore stereo data": everything but configuration comes back, and no label at all
                    import copy as _cp
                    e = _cp.deepcopy(e)
                    for mv in ([e] if e.get('kind') == 'mol' else e['r'] + e['p'] + e['a']):
                        if mv.get('stereo') is not None:
                            mv['stereo'] = []
                    probes['ignore_stereo_roundtrips'] += 1
                d = compare_views(e, a)
                if d:
                    raise Violation(f'roundtrip-mismatch:{diff_field(d)}', f'{fmt} record {i}: {d}')
            probes['roundtrips_equal'] += len(views)
            for e in expected:
                for ft in view_features(e):
                    probes['roundtripped:' + ft] += 1
            for e in expected:
                for mv in ([e] if e.get('kind') == 'mol' else e['r'] + e['p'] + e['a']):
                    st = mv.get('stereo')
                    if st:
                        probes['stereo_molecules_roundtripped'] += 1
                        for x in st:
                            probes['stereo_label_roundtripped:' + str(x[0])] += 1
                    elif st is None:
                        probes['stereo_excluded_explicit_h'] += 1
        else:
            # a file that was only truncated (crash, failed write, tear - no other byte damage) may lose its torn tail record,
            # but whatever structure the reader returns must be one that was written
            tear_only = not trace.get('append') and all(op['kind'] == 'tear' and op.get('fill', 'cut') == 'cut'
                                                        for op in trace.get('damage') or []) and \
                (wp.get('crash') or {}).get('fill', 'cut') == 'cut'
            if tear_only:
                def struct(v):
                    if v.get('kind') == 'rxn':
                        return ('rxn', [[(m['atoms'], m['bonds']) for m in v[r]] for r in 'rpa'])
                    return ('mol', v['atoms'], v['bonds'])
                known_structs = [struct(e) for e in expected]

                def salvaged(sv):
                    # readers run with ignore=True, which documents that unparsable member molecules of a reaction are
                    # dropped: a torn reaction may come back with its torn member missing, never with a different member
                    if sv[0] != 'rxn':
                        return False
                    for ks in known_structs:
                        if ks[0] == 'rxn' and all(_is_subseq(sv[1][r], ks[1][r]) for r in range(3)):
                            return True
                    return False
                for k, v in enumerate(views):
                    if struct(v) not in known_structs and not salvaged(struct(v)):
                        raise Violation('torn-record-returned-as-structure',
                                        f'{fmt}: record {k} read from a truncated file is not one of the written records: '
                                        f'{str(struct(v))[:200]}')
                probes['tear_only_structures_checked'] += len(views)
            # the intact records must come back, in order, as a subsequence of what the reader yields
            j = 0
            need = list(intact)
            if partial:
                # an allowed escape (injected read error, overflow of the drawn buffer, XML error at a tear) ends the
                # phase: what was yielded before it must be a correct prefix of the intact sequence
                need = need[:0] if not views else need
            matched = 0
            for i in need:
                found = False
                while j < len(views):
                    d = compare_views(expected[i], views[j])
                    j += 1
                    if d is None:
                        found = True
                        break
                if not found:
                    if partial:
                        break
                    kind = 'acked-record-lost' if (res['crashed'] or res['failed']) and not damaged else 'intact-record-lost'
                    raise Violation(kind, f'{fmt}: intact record {i} of {img.n} not among the {len(views)} records read '
                                          f'(intact={intact})')
                matched += 1
            probes['intact_matched'] += matched
            if len(views) < len(intact) and not partial:
                probes['reader_skipped'] += 1


def _tuplify(v):
    if isinstance(v, list):
        return [_tuplify(x) for x in v]
    if isinstance(v, dict):
        return {k: _tuplify(x) for k, x in v.items()}
    return v


def _is_subseq(a, b):
    it = iter(b)
    return all(any(x == y for y in it) for x in a)


def _byte_extents(text, extents):
    if text.isascii():
        return list(extents)
    out = []
    for a, b in extents:
        ba = len(text[:a].encode('utf-8'))
        out.append((ba, ba + len(text[a:b].encode('utf-8'))))
    return out


def _tear_class(ref, extents, cut, fmt):
    for i, (a, b) in enumerate(extents):
        if a <= cut < b:
            seg = ref[a:cut]
            if fmt == 'mrv':
                return 'inside-xml-record'
            lines = seg.count(b'\n')
            rest = ref[a:b]
            mend = rest.find(b'M  END')
            if lines < 3:
                return 'header'
            if lines == 3 + (2 if fmt in ('rdf', 'erdf') else 0):
                return 'counts-line'
            if mend >= 0 and cut - a > mend + 6:
                return 'metadata-or-delimiter'
            return 'atom-bond-property-block'
    return 'between-records'


# ---------------------------------------------------------------------------------------------
# random access through the index cache + real grep

def _indexed_phase(fmt, data, expected, rp, probes, scratch):
    import chython.files.mdl.read as MR
    if scratch is None:
        scratch = _scratch()
    d = os.path.join(scratch, 'ix')
    shutil.rmtree(d, ignore_errors=True)
    os.makedirs(d)
    path = os.path.join(d, 'file.' + ('sdf' if fmt in ('sdf', 'esdf') else 'rdf'))
    with open(path, 'wb') as f:
        f.write(data)
    old = MR.gettempdir
    MR.gettempdir = lambda: d      # the index cache can never leak into (or from) the real temp directory
    try:
        seq = seq_outcomes(fmt, data, rp.get('calc_ct'))
        RR = _cls(FORMATS[fmt]['reader'])
        ckw = {'calc_cis_trans': True} if rp.get('calc_ct') else {}
        R = lambda p, **k: RR(p, **k, **ckw)   # noqa: E731
        reader = R(path, indexable=True)
        probes['indexed_phases'] += 1
        try:
            n = len(reader)
            if n != len(seq):
                raise Violation('random-access-mismatch:len', f'{fmt}: len(reader)={n}, sequential reading sees {len(seq)} records')
            pos = 0
            for op in rp.get('ops', []):
                k = op['op']
                probes['ix:' + k] += 1
                if k == 'get':
                    i = op['i'] % n if n else 0
                    if op.get('neg'):
                        i = i - n
                    want = seq[i]
                    try:
                        got = ('ok', record_view(reader[i], fmt))
                    except ValueError:
                        got = ('err', 'ValueError')
                    except Exception as e:
                        got = ('err', type(e).__name__)
                    _cmp_outcome(want, got, f'reader[{i}]', 'getitem')
                    pos = (i % n) + 1
                elif k == 'slice':
                    a, b, st = op.get('a'), op.get('b'), op.get('step', 1) or 1
                    want = [x[1] for x in seq[a:b:st] if x[0] == 'ok']
                    try:
                        got = [record_view(r, fmt) for r in reader[a:b:st]]
                    except Exception as e:
                        raise Violation(f'random-access-mismatch:slice', f'reader[{a}:{b}:{st}] raised {e!r}')
                    if len(want) != len(got) or any(compare_views(x, y) for x, y in zip(want, got)):
                        raise Violation('random-access-mismatch:slice', f'reader[{a}:{b}:{st}] gave {len(got)} records, '
                                                                         f'sequential reading gives {len(want)}')
                    if st > 1:
                        probes['slice_step_gt1'] += 1
                    if st < 0:
                        probes['slice_negative_step'] += 1
                    pos = None
                elif k == 'seek':
                    i = op['i'] % n if n else 0
                    if pos is not None and i < pos:
                        probes['seek_backwards'] += 1
                    reader.seek(i)
                    if reader.tell() != i:
                        raise Violation('random-access-mismatch:tell', f'tell()={reader.tell()} after seek({i})')
                    want = seq[i]
                    try:
                        got = ('ok', record_view(reader.read_structure(current=False), fmt))
                    except ValueError:
                        got = ('err', 'ValueError')
                    except Exception as e:
                        got = ('err', type(e).__name__)
                    _cmp_outcome(want, got, f'seek({i}); read_structure(current=False)', 'seek')
                    pos = i + 1
                    if reader.tell() != pos:
                        raise Violation('random-access-mismatch:tell', f'tell()={reader.tell()}, expected {pos}')
                elif k == 'current':
                    if pos is None or pos == 0 or seq[pos - 1][0] != 'ok':
                        continue
                    got = ('ok', record_view(reader.read_structure(current=True), fmt))
                    _cmp_outcome(seq[pos - 1], got, 'read_structure(current=True)', 'current')
                    meta = reader.read_metadata()
                    want_meta = seq[pos - 1][1]['meta']
                    from checks.c11_records import norm_meta
                    if norm_meta(meta, fmt) != want_meta:
                        raise Violation('random-access-mismatch:metadata', f'{norm_meta(meta, fmt)!r} != {want_meta!r}')
                    blk = reader.read_block()
                    if not blk or blk.encode() not in data.replace(b'\r\n', b'\n'):
                        raise Violation('random-access-mismatch:block', 'read_block() is not a piece of the file')
                elif k == 'reset':
                    reader.reset_index()
                    if len(reader) != n:
                        raise Violation('random-access-mismatch:len', f'len changed to {len(reader)} after reset_index()')
                elif k == 'reopen':
                    reader.close()
                    reader = R(path, indexable=True)   # loads the pickled index instead of recomputing it
                    probes['index_loaded_from_pickle'] += 1
                    if len(reader) != n:
                        raise Violation('random-access-mismatch:len', f'len {len(reader)} after reopen, expected {n}')
                    pos = 0
                elif k == 'iterate':
                    i = op['i'] % n if n else 0
                    reader.seek(i)
                    want = [x[1] for x in seq[i:] if x[0] == 'ok']
                    got = [record_view(r, fmt) for r in reader]
                    if len(want) != len(got) or any(compare_views(x, y) for x, y in zip(want, got)):
                        raise Violation('random-access-mismatch:iterate', f'iteration after seek({i}) gave {len(got)} records, '
                                                                           f'expected {len(want)}')
                    pos = None
        finally:
            reader.close()
        # and the plain round trip for the indexed reader's view of the file
        oks = [x[1] for x in seq if x[0] == 'ok']
        if len(oks) == len(expected) and all(compare_views(e, a) is None for e, a in zip(expected, oks)):
            probes['roundtrips_equal'] += len(oks)
    finally:
        MR.gettempdir = old
        shutil.rmtree(d, ignore_errors=True)


def _cmp_outcome(want, got, what, cls):
    if want[0] != got[0]:
        raise Violation(f'random-access-mismatch:{cls}', f'{what}: sequential reading gives {want[0]} '
                                                         f'({want[1] if want[0] == "err" else "record"}), random access gives '
                                                         f'{got[0]} ({got[1] if got[0] == "err" else "record"})')
    if want[0] == 'ok':
        d = compare_views(want[1], got[1])
        if d:
            raise Violation(f'random-access-mismatch:{cls}', f'{what}: {d}')


# =============================================================================================
# generation

def draw_config(rng):
    return {
        'n_records': rng.choice([1, 1, 2, 3, 4, 6, 8]),
        'risky_p': rng.choice([0.0, 0.0, 0.1, 0.3]),
        'file_share': rng.choice([0.0, 0.2, 0.5, 0.9]),
        'rxn_share': rng.choice([0.0, 0.5, 1.0]),
        'name_p': rng.choice([0.0, 0.6, 1.0]),
        'meta_p': rng.choice([0.0, 0.6, 1.0]),
        'mode': rng.choice(['clean', 'clean', 'writefault', 'writefault', 'damage', 'damage', 'readfault', 'indexed']),
        'calc_ct': rng.random() < 0.5,
        'multiline_p': rng.choice([0.0, 0.0, 0.3, 0.6]),
        'bad_p': rng.choice([0.0, 0.0, 0.0, 0.15]),
    }


def generate(seed):
    st = core.Streams(seed)
    w, s, f = st.workload, st.schedule, st.fault
    cfg = draw_config(s)
    fmt = s.choice(['sdf', 'esdf', 'rdf', 'erdf', 'mrv'])
    if cfg['mode'] == 'indexed' and fmt == 'mrv':
        fmt = s.choice(['sdf', 'esdf', 'rdf', 'erdf'])
    trace = {'property': PROP, 'seed': seed, 'config': cfg, 'fmt': fmt, 'calc_ct': cfg['calc_ct']}
    trace['records'] = [gen_record_spec(w, cfg, FORMATS[fmt]['rxn']) for _ in range(cfg['n_records'])]
    wp = {'bufsize': s.choice([16, 64, 512, 4096, 8192]), 'flush_every': s.choice([0, 0, 1, 2]),
          'write_through': s.random() < 0.2, 'clock': [s.choice([1, 60, 86400, -3600, 10 ** 7]) for _ in range(3)]}
    wp['via'] = s.choice(['wrapper', 'wrapper', 'open'])
    wp['append_via'] = s.choice(['wrapper', 'open'])
    trace['write'] = wp
    mode = cfg['mode']
    if mode in ('clean', 'indexed') and s.random() < (0.6 if mode == 'indexed' else 0.3):
        k = s.choice((['empty_record'] * 4 if mode == 'indexed' else []) + ['v3000wrap', 'v3000wrap', 'no_final_delimiter', 'crlf', 'empty_record', 'empty_record', 'v2000props', 'v2000props', 'rireg', 'v2000extras', 'v2000extras', 'rxn_unsupported_member', 'rxn_unsupported_member', 'mixed_versions', 'mixed_versions', 'bonds_sorted', 'bonds_sorted', 'bonds_sorted', 'v3000_defaults', 'v3000_defaults'])
        if fmt == 'mrv':
            k = 'mrv_compact'
        if (k in ('v3000wrap', 'v3000_defaults') and fmt in ('esdf', 'erdf')) or (k == 'empty_record' and fmt != 'mrv') or \
                (k in ('v2000props', 'v2000extras') and fmt in ('sdf', 'rdf')) or (k in ('rireg', 'rxn_unsupported_member') and fmt in ('rdf', 'erdf')) or \
                (k == 'mrv_compact' and fmt == 'mrv') or \
                (k == 'no_final_delimiter' and fmt in ('sdf', 'esdf') and mode == 'clean') or \
                (k in ('mixed_versions', 'bonds_sorted') and fmt != 'mrv') or \
                (k == 'crlf' and fmt != 'mrv'):
            trace['foreign'] = {'kind': k, 'width': s.choice([20, 30, 40, 60, 78]), 'blank_first': s.random() < 0.5,
                                'no_newline': s.random() < 0.5, 'after': s.randrange(8), 'per_line': s.choice([1, 2, 3, 8, 8])}
            if k == 'v2000extras':
                trace['foreign']['picks'] = [s.randrange(64) for _ in range(s.choice([0, 1, 1, 2, 3]))]
                trace['foreign']['header'] = s.randrange(16)
            if k == 'mixed_versions':
                trace['foreign']['mask'] = s.randrange(1, 1 << 12)
            if k == 'bonds_sorted':
                trace['foreign']['desc'] = s.random() < 0.5
            if k == 'v3000_defaults':
                trace['foreign']['picks_mask'] = s.randrange(1, 32)
            if k == 'rxn_unsupported_member':
                trace['foreign']['member'] = s.randrange(64)
                trace['foreign']['empty'] = s.random() < 0.4
    if mode == 'clean' and fmt != 'mrv' and s.random() < 0.3 and not trace.get('foreign'):
        trace['append'] = [gen_record_spec(w, cfg, FORMATS[fmt]['rxn']) for _ in range(s.choice([1, 2]))]
    reads = []
    if mode == 'writefault':
        plan = {}
        kind = f.choice(['short', 'crash', 'crash', 'crash', 'error', 'error'])
        if kind == 'short' or f.random() < 0.3:
            plan['short'] = sorted({f.randrange(1, 40) for _ in range(f.randrange(1, 6))})
            plan['short_frac'] = f.random()
        if kind == 'crash':
            plan['crash_at'] = f.randrange(1, 30)
            plan['crash_part'] = f.random()
            wp['crash'] = {'cut_frac': f.choice([0.0, 1.0, f.random(), f.random()]), 'fill': f.choice(['cut', 'cut', 'zero', 'garbage']),
                           'sector': f.random() < 0.3}
        elif kind == 'error':
            plan['error_at'] = f.randrange(1, 30)
            plan['errno'] = f.choice(['ENOSPC', 'EIO'])
            plan['error_part'] = f.choice([0.0, 0.0, f.random()])
        wp['plan'] = plan
        wp['bufsize'] = f.choice([16, 64, 64, 256])   # many raw writes, so that the planned fault actually fires
        wp['write_through'] = f.random() < 0.5
        if f.random() < 0.3 and fmt != 'mrv':
            trace['append'] = [gen_record_spec(w, cfg, FORMATS[fmt]['rxn']) for _ in range(f.choice([1, 2, 3]))]
    elif mode == 'damage':
        ops = []
        for _ in range(f.choice([1, 1, 1, 2, 3])):
            k = f.choice(['flip', 'flip', 'set', 'delbyte', 'insbyte', 'delline', 'dupline', 'truncline', 'zerosector',
                          'swapsectors', 'tear', 'tear'])
            if fmt == 'mrv':
                k = f.choice(['xmlattr', 'xmlattr', 'xmlattr', 'tear'])
            op = {'kind': k, 'pos': f.random()}
            if k == 'xmlattr':
                op['mode'] = f.randrange(3)
                op['value'] = f.choice(['x', '0', '-1', 'Zz', '99', 'a1 a2', '1e9'])
            if k == 'flip':
                op['bit'] = f.randrange(8)
            elif k in ('set', 'insbyte'):
                op['byte'] = f.choice([32, 48, 57, 10, 36, 62, 77, 0, 255, 200])
            elif k == 'truncline':
                op['frac'] = f.random()
            elif k == 'swapsectors':
                op['k'] = f.randrange(4)
            elif k == 'tear':
                op['fill'] = f.choice(['cut', 'cut', 'zero', 'garbage'])
                op['sector'] = f.random() < 0.3
            ops.append(op)
        trace['damage'] = ops
    rmodes = ['for', 'for', 'read', 'readn', 'next', 'structure', 'mixed']
    for _ in range(s.choice([1, 1, 2])):
        rp = {'mode': s.choice(rmodes), 'n': s.choice([1, 2, 3]), 'bufsize': s.choice([16, 128, 8192]),
              'via': s.choice(['wrapper', 'open', 'open', 'pathlib'])}
        if rp['mode'] == 'mixed':
            rp['pattern'] = [s.randrange(3) for _ in range(s.choice([1, 2, 3, 5]))]
        if s.random() < 0.4:
            rp['chunk'] = s.choice([1, 3, 7, 64, 511])
        if rp['via'] == 'wrapper' and s.random() < 0.25:
            rp['noseek'] = True
        if mode == 'clean' and s.random() < 0.15:
            rp['remap'] = True
        elif mode == 'clean' and s.random() < 0.1:
            rp['ignore_stereo'] = True
        if mode == 'readfault':
            r = f.random()
            if r < 0.5:
                rp['error_at_frac'] = f.random()
            elif r < 0.8 and fmt != 'mrv':
                rp['buffer_size'] = f.choice([3, 8, 15, 30, 60, 200])
            else:
                rp['remap'] = True
        reads.append(rp)
    if mode == 'indexed':
        ops = []
        for _ in range(s.choice([3, 5, 8, 12])):
            k = s.choice(['get', 'get', 'get', 'slice', 'slice', 'seek', 'seek', 'current', 'reset', 'reopen', 'iterate'])
            op = {'op': k, 'i': s.randrange(64)}
            if k == 'get':
                op['neg'] = s.random() < 0.3
            if k == 'slice':
                op.update(a=s.choice([None, s.randrange(-9, 12)]), b=s.choice([None, s.randrange(-9, 12)]),
                          step=s.choice([1, 1, 2, 3, -1, -1, -2]))
            ops.append(op)
            if k in ('slice', 'seek', 'iterate') and s.random() < 0.5:
                # sequential reading that stops at some record, immediately followed by integer access to the records around
                # the stopping point (the reader's position / buffer state is what such patterns depend on)
                e = s.randrange(0, 8)
                ops.append({'op': 'slice', 'i': 0, 'a': s.choice([0, 0, 1, e]), 'b': e + 1, 'step': 1})
                for d in s.sample([0, 0, -1, 1], 2):
                    ops.append({'op': 'get', 'i': max(0, e + d), 'neg': False})
        reads.append({'indexed': True, 'ops': ops})
    trace['reads'] = reads
    return trace


def tear_sweep(trace, probes, stride):
    """Enumerate the cut position of one sampled clean file (DESIGN 6.1 'tear sweep')."""
    base = {k: v for k, v in trace.items() if k not in ('damage', 'append')}
    base['write'] = {k: v for k, v in trace['write'].items() if k not in ('plan', 'crash')}
    base['reads'] = [{'mode': 'for', 'via': 'open'}]
    recs = _build_all(base, Counter())
    if not recs:
        return None, 0
    text, extents, kept, footer, _ = reference_write(base['fmt'], recs, base['write'].get('clock', [60]))
    n = len(text.encode())
    if n > 8000:
        return None, 0
    if stride == 1 and n > 4000:
        stride = 7           # every byte only for files up to 4 kB
    if stride > 1 and n > 6000:
        stride = 23
    cuts = set(range(0, n, stride))
    cuts |= {i + 1 for i, c in enumerate(text) if c == '\n'}
    cuts |= set(range(0, n, 512))
    cnt = 0
    for cut in sorted(cuts):
        t = dict(base)
        t['damage'] = [{'kind': 'tear', 'pos': cut / max(1, n - 1), 'fill': 'cut'}]
        t['damage'][0]['_cut'] = cut
        v = execute(t, probes)
        cnt += 1
        if v:
            return dict(t, violation=v), cnt
    return None, cnt


def run_one(i, tier, base):
    seed = core.derive_seed(base, PROP, i)
    probes = Counter()
    trace = generate(seed)
    out = {'runs': 1, 'sigs': set(), 'nontrivial': 0, 'violations': [], 'sample': None, 'sweep_cuts': 0}
    scratch = _scratch()
    v = execute(trace, probes, scratch)
    if v:
        out['violations'].append(dict(trace, violation=v))
    fired = sorted(k for k in probes if k.startswith('fault:') or k.startswith('ix:'))
    if fired or trace['config']['mode'] == 'indexed':
        out['nontrivial'] = 1
        out['sigs'].add(hash((trace['fmt'], tuple(fired), tuple(sorted(k for k in probes if k.startswith('tear_class'))),
                              tuple(r.get('mode', 'ix') for r in trace['reads']), len(trace['records']),
                              tuple(s['k'] for s in trace['records']))) & 0xffffffffffff)
    sweep_every = 40 if tier == 'thorough' else 150
    if not v and i % sweep_every == 0:
        sv, cnt = tear_sweep(trace, probes, 1 if tier == 'thorough' else 7)
        out['sweep_cuts'] = cnt
        out['runs'] += cnt
        probes['tear_sweeps'] += 1
        if sv:
            out['violations'].append(sv)
    if i % 211 == 0:
        out['sample'] = {k: trace[k] for k in ('seed', 'fmt', 'records', 'write', 'reads') if k in trace}
        if trace.get('damage'):
            out['sample']['damage'] = trace['damage']
        if trace.get('foreign'):
            out['sample']['foreign'] = trace['foreign']
    out['probes'] = probes
    out['digest'] = core.digest([trace, v, sorted(probes.items())])
    return out


# =============================================================================================
# minimisation

def minimise(trace, budget_n=250):
    target = trace['violation']
    budget = [budget_n]
    scratch = _scratch()

    def fails(t):
        v = execute(t, None, scratch)
        return v is not None and v['class'] == target['class']

    t = {k: v for k, v in trace.items() if k != 'violation'}
    if not fails(t):
        return trace
    for key in ('records', 'damage', 'append', 'reads'):
        if not t.get(key) or len(t[key]) < 2:
            continue
        def test(items, key=key):
            return fails(dict(t, **{key: items}))
        t[key] = core.ddmin(t[key], test, budget)
    # drop whole optional sections
    for key in ('append', 'damage', 'foreign'):
        if t.get(key) and budget[0] > 0:
            budget[0] -= 1
            c = {k: v for k, v in t.items() if k != key}
            if fails(c):
                t = c
    # simplify the write plan and the records
    if budget[0] > 0 and (t['write'].get('plan') or t['write'].get('crash')):
        budget[0] -= 1
        c = dict(t, write={k: v for k, v in t['write'].items() if k not in ('plan', 'crash')})
        if fails(c):
            t = c
    for idx in range(len(t['records'])):
        spec = t['records'][idx]
        for key in ('meta', 'name', 'edits'):
            if key in spec and budget[0] > 0:
                budget[0] -= 1
                ns = {k: v for k, v in spec.items() if k != key}
                c = dict(t, records=t['records'][:idx] + [ns] + t['records'][idx + 1:])
                if fails(c):
                    t = c
                    spec = ns
    for ridx in range(len(t.get('reads') or [])):
        rp = t['reads'][ridx]
        if rp.get('ops') and len(rp['ops']) > 1:
            def test(ops, ridx=ridx, rp=rp):
                return fails(dict(t, reads=t['reads'][:ridx] + [dict(rp, ops=ops)] + t['reads'][ridx + 1:]))
            ops = core.ddmin(rp['ops'], test, budget)
            t['reads'][ridx] = dict(rp, ops=ops)
        for key in ('chunk', 'bufsize', 'n', 'via'):
            if key in t['reads'][ridx] and budget[0] > 0:
                budget[0] -= 1
                nr = {k: v for k, v in t['reads'][ridx].items() if k != key}
                c = dict(t, reads=t['reads'][:ridx] + [nr] + t['reads'][ridx + 1:])
                if fails(c):
                    t = c
    v = execute(t, None, scratch)
    t['violation'] = v
    t['minimised'] = True
    return t


def op_kinds(trace):
    kinds = ['fmt:' + trace['fmt']]
    for d in trace.get('damage') or []:
        kinds.append('damage:' + d['kind'])
    w = trace.get('write') or {}
    if (w.get('plan') or {}).get('crash_at'):
        kinds.append('crash')
    if (w.get('plan') or {}).get('error_at'):
        kinds.append('write-error')
    if trace.get('append'):
        kinds.append('append')
    if trace.get('foreign'):
        kinds.append('foreign:' + trace['foreign']['kind'])
    for r in trace.get('reads') or []:
        if r.get('indexed'):
            kinds.append('indexed')
            kinds += ['ix:' + o['op'] for o in r.get('ops', [])]
        if r.get('error_at_frac') is not None:
            kinds.append('read-error')
        if r.get('buffer_size'):
            kinds.append('small-buffer')
    for s in trace['records']:
        kinds.append('rec:' + s['k'])
        if s['k'] == 'file':
            kinds.append('file:' + s['f'])
    return kinds


def prewarm():
    from chython import smiles
    import chython.files  # noqa
    for s in ('CCO', 'c1ccccc1', '[Na+].[Cl-]'):
        str(smiles(s))


# =============================================================================================
# the repository's own files

def own_file_views():
    """{file|options: [per record: {'struct': digest, 'stereo': [...] | None} | None]} for the repository's own test files."""
    out = {}
    for name in FILES:
        path = os.path.join(env.REPO, 'test', name)
        if not os.path.exists(path):
            continue
        fmt = 'sdf' if name.endswith('.sdf') else 'rdf' if name.endswith('.rdf') else 'mrv'
        with open(path, 'rb') as f:
            data = f.read()
        for ct in (False, True):
            seq = seq_outcomes(fmt, data, ct)
            recs = []
            for st, v in seq:
                if st != 'ok':
                    recs.append(None)
                    continue
                mols = [v] if v.get('kind') == 'mol' else v['r'] + v['p'] + v['a']
                recs.append({'struct': core.digest([[m['atoms'], m['bonds']] for m in mols]),
                             'stereo': [None if m.get('stereo') is None or isinstance(m.get('stereo'), str) else
                                        sorted(json.loads(json.dumps(m['stereo'])), key=repr) for m in mols]})
            out[f'{name}|calc_ct={ct}'] = recs
    return out


def golden_phase(probes):
    """What the own files denote is data: every record must still read as the same atoms and bonds, and every stereo label
    recorded in golden/own_files.json must still be there with the same canonical sign (additional labels are not an error)."""
    path = os.path.join(env.VERIF, 'golden', 'own_files.json')
    if not os.path.exists(path):
        return []
    with open(path) as f:
        golden = json.load(f)
    found = []
    now = own_file_views()
    for key, recs in golden.items():
        cur = now.get(key)
        name = key.split('|')[0]
        if cur is None:
            continue
        if len(cur) != len(recs):
            found.append((name, 'roundtrip-mismatch:count', f'own file {key}: {len(cur)} records, {len(recs)} recorded'))
            continue
        for i, (g, c) in enumerate(zip(recs, cur)):
            if g is None:
                continue
            probes['golden_records_checked'] += 1
            if c is None:
                found.append((name, 'exception-escaped:own-file-record', f'own file {key} record {i} is no longer readable'))
                break
            if g['struct'] != c['struct']:
                found.append((name, 'roundtrip-mismatch:atoms', f'own file {key} record {i}: atoms / bonds differ from the recorded reading'))
                break
            bad = None
            for gs, cs in zip(g['stereo'], c['stereo']):
                if gs is None or cs is None:
                    continue
                have = [json.dumps(x) for x in cs]
                miss = [x for x in gs if json.dumps(x) not in have]
                if miss:
                    bad = miss
                    break
            if bad:
                found.append((name, 'roundtrip-mismatch:stereo', f'own file {key} record {i}: recorded stereo labels missing or changed: {bad[:3]}'))
                break
    return found


def layout_phase(probes):
    """Fixed, seed-independent part of every run: all records of the repository's stereo files through every MDL writer, the
    bond block re-sorted the way other programs write it, read back with and without `calc_cis_trans`: configuration must not
    depend on which bond line of a stereo centre carries the wedge."""
    found = []
    from checks.c11_records import _load_file
    for name, n in (('stereo.sdf', 32), ('isomorphism.sdf', 8)):
        recs = [r for r in _load_file(name) if r is not None]
        idx = list(range(min(n, len(recs))))
        # ... and every record with an allene or a cis/trans label (few, and the ones whose wedge handling has most cases)
        idx += [i for i, r in enumerate(recs) if i >= n and hasattr(r, 'stereogenic_allenes') and
                (any(a.stereo is not None and k in r.stereogenic_allenes for k, a in r.atoms()) or
                 any(b.stereo is not None for *_, b in r.bonds()))][:40]
        for fmt in ('sdf', 'esdf', 'rdf', 'erdf'):
            for start in range(0, len(idx), 8):
                for kind in ('bonds_sorted', 'bonds_sorted_desc', None):
                    t = {'property': PROP, 'seed': 0, 'fmt': fmt, 'calc_ct': False,
                         'config': {'mode': 'clean', 'calc_ct': False, 'n_records': 8},
                         'records': [{'k': 'file', 'f': name, 'i': j} for j in idx[start:start + 8]],
                         'write': {'bufsize': 8192, 'clock': [60], 'via': 'wrapper', 'append_via': 'wrapper', 'flush_every': 0, 'write_through': False},
                         'reads': [{'mode': 'for'}]}
                    if kind:
                        t['foreign'] = {'kind': 'bonds_sorted', 'desc': kind.endswith('desc')}
                    v = execute(t, probes, _scratch())
                    probes['layout_phase_files'] += 1
                    if v:
                        found.append(dict(t, violation=v))
                        break
    return found


def own_files_phase(probes):
    """Valid records written by other programs are read rather than crashed on; random access = sequential."""
    found = []
    scratch = _scratch()
    for name in FILES:
        path = os.path.join(env.REPO, 'test', name)
        if not os.path.exists(path):
            continue
        fmt = 'sdf' if name.endswith('.sdf') else 'rdf' if name.endswith('.rdf') else 'mrv'
        with open(path, 'rb') as f:
            data = f.read()
        nrec = data.count(b'$$$$') if fmt == 'sdf' else None
        for mode in ('for', 'structure'):
            t = {'property': PROP, 'fmt': fmt, 'own_file': name, 'reads': [{'mode': mode}]}
            disk = SimFile(data)
            out, exc, raw = sequential_read(fmt, disk, {'mode': mode, 'via': 'open'})
            probes['own_file_records_read'] += len(out)
            if exc is not None:
                tb = traceback.extract_tb(exc.__traceback__)
                found.append(dict(t, records=[], violation={'class': f'exception-escaped:{type(exc).__name__}',
                                                            'detail': f'own file {name} ({mode}): {exc!r} in {tb[-1].name if tb else "?"} '
                                                                      f'after {len(out)} records'}))
                break
        if fmt != 'mrv':
            try:
                _indexed_phase(fmt, data, [], {'ops': [{'op': 'get', 'i': k} for k in range(0, 40, 3)] +
                                               [{'op': 'slice', 'a': 0, 'b': 9, 'step': 2}, {'op': 'slice', 'a': None, 'b': None, 'step': -1},
                                                {'op': 'reopen', 'i': 0},
                                                {'op': 'seek', 'i': 5}, {'op': 'current', 'i': 0}, {'op': 'iterate', 'i': 1}]},
                               probes, scratch)
            except Violation as v:
                found.append({'property': PROP, 'fmt': fmt, 'own_file': name, 'records': [], 'reads': [{'indexed': True}],
                              'violation': {'class': v.cls, 'detail': f'own file {name}: {v.detail}'}})
            except Exception as e:
                found.append({'property': PROP, 'fmt': fmt, 'own_file': name, 'records': [], 'reads': [{'indexed': True}],
                              'violation': {'class': f'exception-escaped:{type(e).__name__}', 'detail': f'own file {name} indexed: {e!r}'}})
    for name, cls, detail in golden_phase(probes):
        found.append({'property': PROP, 'fmt': 'sdf' if name.endswith('.sdf') else 'rdf' if name.endswith('.rdf') else 'mrv',
                      'own_file': name, 'records': [], 'reads': [{'golden': True}], 'violation': {'class': cls, 'detail': detail}})
    return found


def replay_own_file(trace):
    probes = Counter()
    for t in own_files_phase(probes):
        if t['own_file'] == trace['own_file'] and t['violation']['class'] == trace['violation']['class']:
            return t['violation']
    return None


# =============================================================================================
# driver

TIERS = {'quick': {'runs': 5000, 'wall': 50, 'chunk': 20}, 'thorough': {'runs': 600000, 'wall': 900, 'chunk': 40}}


def _worker(i):
    r = run_one(i, _worker.tier, _worker.base)
    if r['violations']:
        mins = []
        for t in r['violations'][:1]:
            try:
                mins.append(minimise(t))
            except Exception:
                mins.append(dict(t, minimise_error=traceback.format_exc()))
        r['violations'] = mins
    return r


def _digest_worker(i):
    r = run_one(i, getattr(_digest_worker, 'tier', 'quick'), core.base_seed())
    return {'digest': r['digest']}


def replay_file(path):
    with open(path) as f:
        trace = json.load(f)
    prewarm()
    if trace.get('own_file'):
        return replay_own_file(trace), trace
    scratch = _scratch()
    t = {k: v for k, v in trace.items() if k != 'violation'}
    return execute(t, None, scratch), trace


def main(argv):
    import argparse
    import subprocess
    ap = argparse.ArgumentParser()
    ap.add_argument('--tier', default=core.tier_from_env())
    ap.add_argument('--replay')
    ap.add_argument('--runs', type=int)
    ap.add_argument('--wall', type=float)
    ap.add_argument('--workers', type=int)
    ap.add_argument('--start', type=int, default=0)
    ap.add_argument('--no-confirm', action='store_true')
    ap.add_argument('--digest', nargs=2, type=int)
    a = ap.parse_args(argv)
    _scratch()
    try:
        return _main(a, subprocess)
    finally:
        shutil.rmtree(_RUN_SCRATCH, ignore_errors=True)


def _main(a, subprocess):
    if a.replay:
        v, trace = replay_file(a.replay)
        print(json.dumps({'violation': v}, indent=1))
        want = trace.get('violation')
        if v and (not want or v['class'] == want['class']):
            print(f'VIOLATION property={PROP} replay={a.replay}')
            return core.EXIT_VIOLATION
        print('replay: no violation' if not v else f"replay: different violation {v['class']}")
        return core.EXIT_OK if not v else core.EXIT_VIOLATION
    if a.digest:
        prewarm()
        out = {i: run_one(i, 'quick', core.base_seed())['digest'] for i in range(a.digest[0], a.digest[1])}
        print('DIGESTS ' + json.dumps(out))
        return core.EXIT_OK

    t0 = time.time()
    tier = a.tier if a.tier in TIERS else 'quick'
    T = dict(TIERS[tier])
    if a.runs:
        T['runs'] = a.runs
    if a.wall:
        T['wall'] = a.wall
    base = core.base_seed()
    print(f'[{PROP}] VERIF_SEED={base} tier={tier} runs<={T["runs"]} wall<={T["wall"]}s repo={env.REPO}', flush=True)
    prewarm()
    _worker.tier, _worker.base = tier, base
    agg = {'runs': 0, 'nontrivial': 0, 'sweep_cuts': 0}
    sigs, probes, samples, found = set(), Counter(), [], []

    found.extend(own_files_phase(probes))
    agg['runs'] += len(FILES)
    found.extend(layout_phase(probes))

    import glob
    for f in sorted(glob.glob(os.path.join(env.VERIF, 'replays', 'fixed', '*.json'))):
        with open(f) as fh:
            t = json.load(fh)
        if t.get('property') != PROP:
            continue
        if t.get('own_file'):
            continue   # covered by own_files_phase above
        v = execute({k: x for k, x in t.items() if k != 'violation'}, probes, _scratch())
        agg['runs'] += 1
        probes['regression_replays'] += 1
        if v:
            found.append(dict(t, violation=v))

    def on_result(i, r):
        if 'harness_error' in r:
            return
        for k in agg:
            agg[k] += r[k]
        sigs.update(r['sigs'])
        probes.update(r['probes'])
        if r['sample'] and len(samples) < 4:
            samples.append(r['sample'])
        found.extend(r['violations'])

    results, completed, errors = core.run_pool(_worker, range(a.start, a.start + T['runs']), workers=a.workers,
                                               chunk=T['chunk'], wall_cap=T['wall'], hang_s=300, on_result=on_result)
    explore_s = time.time() - t0
    slow = sorted(i for i, r in results.items() if 'slow_run' in r)
    if slow:
        print(f'[{PROP}] {len(slow)} run(s) set aside after the soft time limit ({core.SOFT_TIMEOUT_S}s): indices {slow[:8]}')
        probes['slow_runs_set_aside'] += len(slow)
    known = core.load_known(PROP)
    groups = {}
    for t in found:
        v = t.get('violation')
        if not v:
            continue
        kinds = tuple(sorted(set(op_kinds(t)))) if not t.get('own_file') else ('own_file:' + t['own_file'],)
        key = (v['class'], kinds)
        if key not in groups or len(json.dumps(t)) < len(json.dumps(groups[key])):
            groups[key] = t
    # one report per violation class (the smallest trace), others counted
    by_class = {}
    for key, t in groups.items():
        k = core.match_known(known, key[0], key[1], t['violation'].get('detail', ''))
        if k is not None:
            by_class.setdefault(('known', k['id']), (k, key, t))
            continue
        cur = by_class.get(('new', key[0]))
        if cur is None or len(json.dumps(t)) < len(json.dumps(cur[2])):
            by_class[('new', key[0])] = (None, key, t)
    exit_code = core.EXIT_OK
    reported = 0
    known_hit = []
    for (status, name), (k, key, t) in sorted(by_class.items(), key=lambda kv: kv[0]):
        if status == 'known':
            print(f"KNOWN-FINDING: property={PROP} {k['id']}: {k['what']}")
            known_hit.append(k['id'])
            continue
        path = core.write_replay(PROP, core.digest([key[0], key[1]])[:10], t)
        ok = True
        if not a.no_confirm:
            p = subprocess.run([sys.executable, os.path.join(env.VERIF, 'check'), PROP, '--replay', path], capture_output=True,
                               text=True, env=env.child_env('0', os.environ.get('PYTHONPYCACHEPREFIX')), timeout=600)
            ok = p.returncode == core.EXIT_VIOLATION and 'VIOLATION' in p.stdout
        if ok:
            print(f'VIOLATION property={PROP} replay={path}')
            print(f'  class={key[0]} kinds={list(key[1])[:12]} detail={t["violation"]["detail"][:300]}')
            exit_code = core.EXIT_VIOLATION
            reported += 1
        else:
            print(f'HARNESS: violation {key[0]} did not reproduce in a fresh interpreter ({path})')
            errors.append((-1, 'replay did not reproduce'))

    wall = time.time() - t0
    faults = {k[6:]: v for k, v in probes.items() if k.startswith('fault:')}
    payload = {
        'property_id': PROP, 'tier': tier, 'seed': base, 'level': 'fault_enumeration', 'wall_s': round(wall, 2),
        'violations': reported,
        'coverage': {
            'evaluations': agg['runs'],
            'distinct_nontrivial': len(sigs),
            'rule': 'one evaluation = one simulated write->disk->read pipeline run (1-8 records, one of 5 writer/reader pairs) or '
                    'one enumerated tear position of a sampled file. Non-trivial = at least one fault actually fired (short/failed '
                    'write, crash with torn tail, stored-byte damage, short read, read error, small buffer) or a random-access '
                    'schedule ran; distinct = distinct (format, fired fault kinds, tear position class, reader schedule shape, '
                    'record count and kinds) tuples.',
            'samples': samples[:3] or [{'note': 'no sample index in this run range'}],
            'runs_per_hour': int(agg['runs'] / max(explore_s, 1e-9) * 3600),
            'run_indices': [a.start, a.start + T['runs']], 'completed_all_indices': completed,
            'fault_counts_fired': faults,
            'tear_positions_enumerated': agg['sweep_cuts'],
            'simulated_time_s': probes.get('sim_time_s', 0),
            'probes': {k: v for k, v in sorted(probes.items()) if not k.startswith('fault:')},
            'known_findings_hit': known_hit,
            'real_components': ['chython readers/writers/parsers/containers (working tree of /repo)', 'CPython io stack '
                                '(TextIOWrapper, BufferedWriter, BufferedReader)', 'lxml', 'grep', 'pickle'],
            'stub_components': ['SimDisk raw files (checks/c11_disk.py)', 'simulated strftime', 'redirected gettempdir',
                                'CachedMethods.class_cached_property.__get__ shim'],
        },
        'assumptions': [
            'names/metadata: single-line printable ASCII without leading/trailing blanks; a value never *starts* with a framing token',
            'stereo compared only for records that carry 2D coordinates (repository files), translated to sorted neighbour order; '
            'explicit hydrogens on stereocentres excluded (recorded asymmetry)',
            'member-molecule names/metadata of reactions are not compared (no slot in the formats)',
            'MRV: stored-byte damage restricted to tail tears (non-recovering XML parser)',
        ],
    }
    if errors:
        payload['coverage']['harness_errors'] = [e[1][-400:] for e in errors[:5]]
    core.write_evidence(PROP, payload)
    print(f'[{PROP}] runs={agg["runs"]} distinct={len(sigs)} tear_positions={agg["sweep_cuts"]} wall={wall:.1f}s '
          f'violations={reported} known={len(known_hit)} harness_errors={len(errors)}', flush=True)
    if errors and exit_code == core.EXIT_OK:
        for i, e in errors[:3]:
            print(f'HARNESS-ERROR run={i}\n{e}', file=sys.stderr)
        return core.EXIT_HARNESS
    return exit_code
