"""C11: simulated disk (DESIGN.md section 6.1).

One SimFile = one bytearray ("page cache") with a durable watermark.  Raw writer / reader objects are
io.RawIOBase subclasses, so the real CPython BufferedWriter / BufferedReader / TextIOWrapper sit on top of
them exactly as on a real file.  All fault decisions are taken from a *plan* (a plain dict recorded in the
trace), never from a PRNG, so a run is a pure function of its trace.
"""
import errno
import io


class SimCrash(BaseException):
    """Process crash at a raw write: nothing above the raw layer survives."""


class NoProgress(BaseException):
    """Bounded-liveness budget exhausted (a reader call keeps issuing raw reads without returning)."""


class SimFile:
    def __init__(self, data=b''):
        self.data = bytearray(data)
        self.durable = len(self.data)
        self.stats = {'raw_writes': 0, 'short_writes': 0, 'write_errors': 0, 'raw_reads': 0, 'short_reads': 0,
                      'read_errors': 0, 'syncs': 0, 'crashes': 0}

    def sync(self):
        self.durable = len(self.data)
        self.stats['syncs'] += 1

    def crash(self, cut_frac, fill='cut', sector=False):
        """Lose the volatile tail: keep durable bytes, cut somewhere in the volatile part."""
        vol = len(self.data) - self.durable
        cut = self.durable + int(vol * cut_frac)
        if sector:
            cut = max(self.durable, cut - cut % 512)
        old_len = len(self.data)
        tail_len = old_len - cut
        del self.data[cut:]
        if fill == 'zero':
            self.data += b'\x00' * tail_len
        elif fill == 'garbage':
            self.data += bytes((37 * i + 11) % 251 for i in range(tail_len))
        self.stats['crashes'] += 1
        self.durable = len(self.data)
        return cut


class RawWriter(io.RawIOBase):
    """plan: {'short': [k, ...] raw-write call numbers that accept only part, 'short_frac': f,
              'error_at': k | None (call number raising OSError), 'errno': 'ENOSPC'|'EIO',
              'crash_at': k | None (call number at which the process dies, after accepting crash_part of the data)}"""

    def __init__(self, simfile, plan=None, append=True):
        super().__init__()
        self.f = simfile
        self.plan = plan or {}
        self.calls = 0
        if not append:
            del simfile.data[:]
            simfile.durable = 0

    def writable(self):
        return True

    def seekable(self):
        return True     # like a file opened for appending: position is always the end

    def tell(self):
        return len(self.f.data)

    def seek(self, offset, whence=0):
        if (whence == 2 and offset == 0) or (whence == 1 and offset == 0) or (whence == 0 and offset == len(self.f.data)):
            return len(self.f.data)
        raise OSError('simulated append-only file')

    def write(self, b):
        b = bytes(b)
        if getattr(self, 'dead', False):
            return len(b)      # the process is gone: close()/finalizer chains of the io stack must not reach the disk
        self.calls += 1
        self.f.stats['raw_writes'] += 1
        p = self.plan
        if p.get('crash_at') == self.calls:
            k = int(len(b) * p.get('crash_part', 0.5))
            self.f.data += b[:k]
            self.dead = True
            raise SimCrash()
        if p.get('error_at') == self.calls:
            self.f.stats['write_errors'] += 1
            k = int(len(b) * p.get('error_part', 0.0))
            if k:
                self.f.data += b[:k]
                return k   # short write first; the retry hits the error
            e = errno.ENOSPC if p.get('errno', 'ENOSPC') == 'ENOSPC' else errno.EIO
            p['error_at'] = self.calls + 1 if p.get('persistent') else None
            raise OSError(e, 'simulated write error')
        if self.calls in p.get('short', ()) and len(b) > 1:
            k = max(1, int(len(b) * p.get('short_frac', 0.5)))
            self.f.data += b[:k]
            self.f.stats['short_writes'] += 1
            return k
        self.f.data += b
        return len(b)


class RawReader(io.RawIOBase):
    """plan: {'chunk': max bytes per readinto (short reads), 'error_at_byte': k | None, 'budget': max raw reads}"""

    def __init__(self, simfile, plan=None):
        super().__init__()
        self.f = simfile
        self.plan = plan or {}
        self.pos = 0
        self.calls = 0
        self.name = '<simdisk>'

    def readable(self):
        return True

    def seekable(self):
        return not self.plan.get('noseek')     # a pipe / socket: sequential reading must not need tell() or seek()

    def seek(self, offset, whence=0):
        if self.plan.get('noseek'):
            raise io.UnsupportedOperation('simulated pipe: not seekable')
        if whence == 0:
            self.pos = offset
        elif whence == 1:
            self.pos += offset
        else:
            self.pos = len(self.f.data) + offset
        return self.pos

    def tell(self):
        return self.pos

    def readinto(self, b):
        self.calls += 1
        self.f.stats['raw_reads'] += 1
        budget = self.plan.get('budget')
        if budget is not None and self.calls > budget:
            raise NoProgress()
        n = len(b)
        chunk = self.plan.get('chunk')
        if chunk and n > chunk:
            n = chunk
            self.f.stats['short_reads'] += 1
        err = self.plan.get('error_at_byte')
        if err is not None and self.pos <= err < self.pos + max(n, 1):
            if err == self.pos:
                self.f.stats['read_errors'] += 1
                raise OSError(errno.EIO, 'simulated read error')
            n = err - self.pos
        data = self.f.data[self.pos:self.pos + n]
        b[:len(data)] = data
        self.pos += len(data)
        return len(data)


class SimClock:
    """Seeded wall clock for the one place the code reads time (the $DATM line of RDF headers)."""

    def __init__(self, start=1_600_000_000, steps=(60,)):
        self.now = start
        self.steps = list(steps)
        self.i = 0
        self.total = 0

    def strftime(self, fmt):
        import time as _t
        step = self.steps[self.i % len(self.steps)]
        self.i += 1
        self.now += step
        self.total += abs(step)
        return _t.strftime(fmt, _t.gmtime(max(0, self.now)))
