"""C11: record specifications (JSON), construction of chython objects from them, field-by-field views."""
import os
import random

from simkit import env

SMILES_POOL = [
    'C', 'CC', 'CCO', 'CC(C)C', 'C=C', 'C#N', 'C=C=C', 'C1CC1', 'C1CCC1C', 'C1CCCCC1', 'C1CC2CCC1C2', 'C12(CCC1)CCC2',
    'C1=CC=CC=C1', 'C1=CNC=C1', 'c1ccccc1', 'c1ccncc1', 'c1ccc2ccccc2c1', 'Cc1ccccc1O', 'c1cc[nH]c1', 'c1ccoc1',
    'CC(N)C(=O)O', 'NC(C)C(=O)NC(CO)C(O)=O', 'CC=CC', 'FC=CC=CCl', '[Na+].[Cl-]', 'CC(=O)[O-].[NH4+]', 'C[N+](C)(C)C',
    'C[S+](C)[O-]', 'O=S(=O)(O)O', 'OP(O)(O)=O', '[O-][N+](=O)C', 'CN=[N+]=[N-]', 'B(O)O', 'C[Si](C)(C)C', '[CH3]',
    'C[CH2]', 'C[O]', '[H]C([H])([H])O', '[2H]C(Cl)(F)Br', '[13CH4]', 'Cl[Fe]Cl', 'N[Cu]N', 'CCN.CCO', 'C.C.C',
    'OC(=O)C(O)=O', 'CC#CC', 'C(=O)=O', 'N#N', 'S=C=S', '[Fe+3]', '[O-2]', '[Ti+4]', '[C-4]', '[Si-4]', '[U+4]', '[Pt+2]',
    'ClC(Cl)Cl', 'BrCCBr', 'FC(F)(F)F', 'CSSC', 'C[S-]', '[NH3+]CC([O-])=O', 'O', 'N', '[OH-]', '[H+]', '[He]', '[18OH2]',
    'C' * 104, 'CC(C)' * 34 + 'C', 'N' + 'CCO' * 40, 'C1CC1' + 'CC1CC1' * 20,          # 100+ atoms: three-digit counts and indices
    '[13CH3][13CH2][18OH]', '[2H]C([2H])([2H])O', '[13CH3][15NH2]', '[13CH3]C(=[18O])[18OH]', '[14CH3][13CH2][15NH3+]', '[11B](O)O', '[37Cl][13CH2][37Cl]',
    'CC(C)CC1=CC=C(C=C1)C(C)C(O)=O', 'CN1C=NC2=C1C(=O)N(C)C(=O)N2C', 'OC1=CC=CC=C1', 'C1CCOC1', 'C1COCCO1',
]
FILES = ['isomorphism.sdf', 'peptide.sdf', 'mcs.sdf', 'standardize.sdf', 'arenes.sdf', 'cycle.sdf', 'hbonds.sdf',
         'depict.sdf', 'implicit.sdf', 'morgan_ruiner.sdf', 'stereo.sdf', 'MR.rdf', 'ions.rdf', 'reaction_centerslist.rdf',
         'standardize.rdf', 'implicit.mrv']
_file_cache = {}

NAME_ALPHABET = 'abcdefghijklmnopqrstuvwxyzABCDEFGHIJKLMNOPQRSTUVWXYZ0123456789 _-.,:;()[]{}+=*/%#@!?~^|'
RISKY_TOKENS = ['$$$$', '>', '<', '$DTYPE', '$DATUM', '$MFMT', '$RFMT', '$MOL', '$RXN', 'M  END', 'M  V30', '&', '"', "'",
                '&gt;', ']]>', '<x>', '> <a>', '\\', '&amp;', '&quot;', '&#38;', '&lt;', '&amp;gt;', ' $DATUM ', '<![CDATA[', '-->', '%', '`']


def _load_file(name, ct=False):
    """Records of one of the repository's own files, read once per process with the real reader
    (ct: cis/trans labels calculated from the 2D coordinates, the readers' calc_cis_trans option)."""
    key = (name, bool(ct))
    if key in _file_cache:
        return _file_cache[key]
    from chython import SDFRead, RDFRead, MRVRead
    path = os.path.join(env.REPO, 'test', name)
    recs = []
    try:
        kw = {'calc_cis_trans': True} if ct else {}
        if name.endswith('.sdf'):
            r = SDFRead(path, **kw)
        elif name.endswith('.rdf'):
            r = RDFRead(path, **kw)
        else:
            r = MRVRead(path, **kw)
        with r:
            while True:
                try:
                    recs.append(r.read_structure(current=False))
                except EOFError:
                    break
                except Exception:
                    recs.append(None)   # unreadable record: the own-files phase reports these, generation skips them
                    if len(recs) > 2000:
                        break
    except Exception:
        pass
    _file_cache[key] = recs
    return recs


UNICODE_TOKENS = ['é', 'ß', 'Ω', 'ж', '中文', '😀', 'a\u00a0b', 'naïve café', '°C', 'µM', '±0.5', '→', 'Ångström', '½', '\u200b', 'ﬁ', 'İi', '\u202e', '𝛼']


def gen_text(rng, risky_p, maxlen=24):
    n = rng.randrange(1, maxlen)
    s = ''.join(rng.choice(NAME_ALPHABET) for _ in range(n)).strip()
    if rng.random() < risky_p * 0.6:
        pos = rng.randrange(0, len(s) + 1)
        s = s[:pos] + rng.choice(UNICODE_TOKENS) + s[pos:]      # printable text is not ASCII only
    if rng.random() < risky_p:
        tok = rng.choice(RISKY_TOKENS)
        pos = rng.randrange(1, len(s) + 1) if s else 0
        s = (s[:pos] or 'x') + tok + s[pos:]    # contains, never starts with, a framing token
    s = s.strip()
    return s or 'x'


def gen_value(rng, risky_p, fmt_hint=None, multiline_p=0.0):
    """Metadata value: usually one line; with multiline_p two to four lines (no leading/trailing blanks on any line; a value
    line never starts with a framing token)."""
    r = rng.random()
    if r < risky_p * 0.15:
        return ''                                              # a key whose value is empty
    if r < risky_p * 0.45:
        return rng.choice([0, 1, -7, 42, 3.5, 1e-05, True, False, None, 10 ** 12])     # values users put into metadata as objects
    if rng.random() >= multiline_p:
        return gen_text(rng, risky_p, 40)
    lines = [gen_text(rng, risky_p, 24) for _ in range(rng.choice([2, 2, 3, 4]))]
    if rng.random() < 0.35:
        lines.insert(rng.randrange(1, len(lines)), '')     # blank line inside the value (dropped by the readers' normalisation)
    return '\n'.join(lines)


def gen_key(rng, risky_p):
    s = ''.join(rng.choice('abcdefghijklmnopqrstuvwxyzABCDEFGHIJKLMNOPQRSTUVWXYZ0123456789_-.') for _ in range(rng.randrange(1, 12)))
    if rng.random() < risky_p:
        s = s + rng.choice(['>', '<', ' x', '&', '"', '<>', '$', '&gt;', '&lt;x', '&amp;', '&quot;q', '&#38;', '&amp;gt;', "'", ' $DATUM', '$DTYPE'])
    if rng.random() < risky_p * 0.2:
        return rng.choice([7, 2024, 1.5, True])               # keys that are not strings (str() of them is what a file can hold)
    return s.strip() or 'k'


def _distinct_keys(pairs):
    """A file holds str(key): the int 7 and the string '7' are one key there (two dictionary entries would be merged)."""
    seen, out = set(), []
    for k, v in pairs:
        if ' '.join(str(k).split()) in seen:
            continue
        seen.add(' '.join(str(k).split()))
        out.append([k, v])
    return out


def gen_mol_spec(rng, cfg, small=False):
    r = rng.random()
    if r < cfg.get('file_share', 0.3) and not small:
        f = rng.choice(cfg.get('files') or FILES)
        spec = {'k': 'file', 'f': f, 'i': rng.randrange(400)}
        if cfg.get('calc_ct'):
            spec['ct'] = True
    elif small and r < cfg.get('file_share', 0.3):
        # members of reactions: small records that carry 2D coordinates and wedge bonds
        spec = {'k': 'file', 'f': rng.choice(['isomorphism.sdf', 'isomorphism.sdf', 'mcs.sdf', 'hbonds.sdf', 'stereo.sdf']), 'i': rng.randrange(400)}
        if cfg.get('calc_ct'):
            spec['ct'] = True
    elif r > 0.994 and not small:
        # around the V2000 size limit (999 atoms / bonds): the V2000 writers must refuse cleanly, V3000 and MRV must carry it
        n = rng.choice([998, 999, 1000, 1001, 1400])
        if rng.random() < 0.4:
            # rings at both ends: one bond more than atoms - the bond count crosses the three-digit column first
            spec = {'k': 'smi', 's': 'C1CC1' + 'C' * (rng.choice([997, 998, 999]) - 6) + 'C1CC1', 'edits': []}
        else:
            spec = {'k': 'smi', 's': 'C' * (n - 3) + rng.choice(['N', 'O', '[O-]']) + 'CC', 'edits': []}
    elif r > 0.9 and not small:
        sub_cfg = dict(cfg, file_share=0.0, name_p=0.0, meta_p=0.0)
        spec = {'k': 'join', 'a': gen_mol_spec(rng, sub_cfg, True), 'b': gen_mol_spec(rng, sub_cfg, True),
                'bond': [rng.randrange(32), rng.randrange(32), rng.choice([1, 1, 2, 8])]}
    else:
        spec = {'k': 'smi', 's': rng.choice(SMILES_POOL), 'edits': []}
        for _ in range(rng.choice([0, 0, 1, 1, 2, 3])):
            kind = rng.choice(['charge', 'charge', 'iso', 'rad', 'b8', 'num', 'num', 'xy', 'many'])
            if kind == 'many':
                # more than eight labelled atoms of one kind in one record (property-block lines hold at most eight entries)
                spec['edits'].append(['many', rng.choice(['iso', 'rad', 'chg4', 'chg']), rng.choice([7, 8, 9, 10, 15, 16, 17, 25]), rng.randrange(1000)])
                continue
            if kind == 'xy':
                spec['edits'].append(['xy', rng.randrange(128), rng.choice([-9999.9999, -1000.0, -0.0, 0.00004, 99999.9999, 12345.678, -0.00005, 1.5, 100000.0, -10000.5, 1234567.0]),
                                      rng.choice([-9999.9999, -123.4567, 0.0, 9999.5, 1e-9, 2.25])])
                continue
            if kind == 'charge':
                spec['edits'].append(['charge', rng.randrange(32), rng.choice([-4, -3, -2, -1, 1, 2, 3, 4])])
            elif kind == 'iso':
                spec['edits'].append(['iso', rng.randrange(32), rng.randrange(1, 4)])
            elif kind == 'rad':
                spec['edits'].append(['rad', rng.randrange(32)])
            elif kind == 'b8':
                spec['edits'].append(['b8', rng.randrange(32), rng.randrange(32)])
            else:
                spec['edits'].append(['num', rng.choice(['shift', 'perm', 'sparse']), rng.randrange(1, 900)])
    if rng.random() < cfg.get('name_p', 0.6):
        spec['name'] = gen_text(rng, cfg.get('risky_p', 0.1), 40)
    if rng.random() < cfg.get('meta_p', 0.6):
        spec['meta'] = _distinct_keys([[gen_key(rng, cfg.get('risky_p', 0.1)), gen_value(rng, cfg.get('risky_p', 0.1), None, cfg.get('multiline_p', 0.0))]
                                       for _ in range(rng.choice([1, 1, 2, 3]))])
    return spec


def gen_record_spec(rng, cfg, allow_rxn):
    if rng.random() < cfg.get('bad_p', 0.0):
        return {'k': 'bad', 'what': rng.randrange(5)}
    if allow_rxn and rng.random() < cfg.get('rxn_share', 0.5):
        shape = rng.choice([(1, 1, 0), (2, 1, 0), (1, 2, 1), (1, 1, 1), (0, 1, 0), (1, 0, 0), (0, 0, 1), (2, 2, 2), (0, 1, 1)])
        spec = {'k': 'rxn', 'r': [gen_mol_spec(rng, cfg, True) for _ in range(shape[0])],
                'p': [gen_mol_spec(rng, cfg, True) for _ in range(shape[1])],
                'a': [gen_mol_spec(rng, cfg, True) for _ in range(shape[2])]}
        for m in spec['r'] + spec['p'] + spec['a']:
            m.pop('meta', None)
        if rng.random() < cfg.get('name_p', 0.6):
            spec['name'] = gen_text(rng, cfg.get('risky_p', 0.1), 40)
        if rng.random() < cfg.get('meta_p', 0.6):
            spec['meta'] = _distinct_keys([[gen_key(rng, cfg.get('risky_p', 0.1)), gen_value(rng, cfg.get('risky_p', 0.1), None, cfg.get('multiline_p', 0.0))]
                                           for _ in range(rng.choice([1, 2, 3]))])
        return spec
    return gen_mol_spec(rng, cfg)


class Unbuildable(Exception):
    pass


def build_mol(spec):
    from chython import smiles
    from chython.containers import MoleculeContainer, ReactionContainer
    if spec['k'] == 'join':
        # two SMILES-born molecules merged and joined by one bond: more atoms, more property-block entries per record
        a, b = build_mol(spec['a']), build_mol(spec['b'])
        a._meta = b._meta = None
        m = a | b
        left, right = sorted(a), sorted(m._atoms.keys() - set(a))
        n, k = left[spec['bond'][0] % len(left)], right[spec['bond'][1] % len(right)]
        m.add_bond(n, k, spec['bond'][2])
        m.flush_cache()
        m.fix_structure()
        if max(m) > 999:
            m.remap({x: i for i, x in enumerate(list(m), start=1)})
        if 'name' in spec:
            m.name = spec['name']
        if spec.get('meta'):
            for kk, v in _distinct_keys(spec['meta']):
                m.meta[kk] = v
        return m
    if spec['k'] == 'file':
        recs = [r for r in _load_file(spec['f'], spec.get('ct')) if r is not None]
        if not recs:
            raise Unbuildable('no records in ' + spec['f'])
        rec = recs[spec['i'] % len(recs)]
        if isinstance(rec, ReactionContainer):
            mols = list(rec.molecules())
            rec = mols[spec['i'] % len(mols)]
        m = rec.copy()
        m._meta = None
        m._name = None
    else:
        try:
            m = smiles(spec['s'])
        except Exception as e:
            raise Unbuildable(f'smiles {spec["s"]}: {e!r}')
        m.clean_stereo()   # no coordinates, so no wedge can represent a label (DESIGN 6.3)
        m._meta = None
        for e in spec.get('edits', ()):
            atoms = sorted(m._atoms)
            if e[0] == 'charge':
                m._atoms[atoms[e[1] % len(atoms)]]._charge = e[2]
            elif e[0] == 'iso':
                a = m._atoms[atoms[e[1] % len(atoms)]]
                isos = sorted(a.isotopes_distribution)
                a._isotope = isos[e[2] % len(isos)]
            elif e[0] == 'rad':
                m._atoms[atoms[e[1] % len(atoms)]]._is_radical = True
            elif e[0] == 'xy':
                m._atoms[atoms[e[1] % len(atoms)]].xy = (e[2], e[3])
            elif e[0] == 'many':
                rr = random.Random(e[3])
                for n in rr.sample(atoms, min(len(atoms), e[2])):
                    a = m._atoms[n]
                    if e[1] == 'iso':
                        isos = sorted(a.isotopes_distribution)
                        a._isotope = rr.choice(isos)
                    elif e[1] == 'rad':
                        a._is_radical = True
                    elif e[1] == 'chg4':
                        a._charge = rr.choice([-4, 4])
                    else:
                        a._charge = rr.choice([-3, -2, -1, 1, 2, 3])
            elif e[0] == 'b8':
                n, k = atoms[e[1] % len(atoms)], atoms[e[2] % len(atoms)]
                if n != k and k not in m._bonds[n]:
                    m.add_bond(n, k, 8)
            elif e[0] == 'num':
                if e[1] == 'shift':
                    m.remap({n: n + e[2] % 500 for n in atoms})
                elif e[1] == 'perm':
                    tgt = list(atoms)
                    random.Random(e[2]).shuffle(tgt)
                    m.remap(dict(zip(atoms, tgt)))
                else:
                    rr = random.Random(e[2])
                    tgt = sorted(rr.sample(range(1, 999), len(atoms)))
                    rr.shuffle(tgt)
                    m.remap(dict(zip(atoms, tgt)))
        m.flush_cache()
        m.fix_structure()
    if len(m) == 0:
        raise Unbuildable('empty')
    if 'name' in spec:
        m.name = spec['name']
    if spec.get('meta'):
        for k, v in _distinct_keys(spec['meta']):
            m.meta[k] = v
    return m


class BadRecord:
    """Marker for an object no writer can accept (it must be refused with TypeError / ValueError, nothing else may happen)."""


def build_record(spec):
    from chython.containers import ReactionContainer
    if spec['k'] == 'bad':
        from chython import smarts
        return [ 'CCO', 42, smarts('CO'), None, BadRecord() ][spec.get('what', 0) % 5]
    if spec['k'] != 'rxn':
        return build_mol(spec)
    groups = []
    nxt = {'rp': 1}
    for role in ('r', 'p', 'a'):
        ms = []
        for ms_spec in spec[role]:
            m = build_mol(ms_spec)
            ms.append(m)
        groups.append(ms)
    # numbering: unique within reactants, within products (may coincide across the arrow = atom mapping),
    # reagents disjoint from both (the readers renumber anything else by design)
    for gi, ms in enumerate(groups):
        start = 1 if gi < 2 else 1 + max([max(m) for g in groups[:2] for m in g] + [0])
        for m in ms:
            atoms = list(m)
            m.remap({n: start + i + 2000 for i, n in enumerate(atoms)})
            m.remap({start + i + 2000: start + i for i in range(len(atoms))})
            start += len(atoms)
    if any(max(m) > 999 for g in groups for m in g):
        raise Unbuildable('reaction too big for V2000 numbering')
    r = ReactionContainer(groups[0], groups[1], groups[2])
    if 'name' in spec:
        r.name = spec['name']
    if spec.get('meta'):
        for k, v in _distinct_keys(spec['meta']):
            r.meta[k] = v
    return r


# ---------------------------------------------------------------------------------------------
# views

def norm_value(v):
    return '\n'.join(x for x in (ln.strip() for ln in str(v).split('\n')) if x)


def norm_meta(meta, fmt):
    out = {}
    for k, v in (meta or {}).items():
        if str(k).startswith('chython_'):
            continue
        nv = norm_value(v)
        if nv == '':
            continue        # a key without a value: the MDL readers drop it, MRV keeps it aside; neither is a loss of text
        out[' '.join(str(k).split()) if fmt in ('sdf', 'esdf') else str(k).strip()] = nv
    return out


def stereo_view(m):
    """Configuration translated to a canonical (sorted) neighbour order: raw stored signs legitimately flip when
    the file lists bonds in another order (DESIGN 6.2).  Returns None if the record is outside the compared domain
    (explicit hydrogen on a stereocentre: the one recorded writer/reader asymmetry)."""
    out = []
    atoms = m._atoms
    for n, a in m.atoms():
        if a.stereo is None:
            continue
        if n in m.stereogenic_tetrahedrons:
            if any(atoms[x].atomic_number == 1 for x in m._bonds[n]):
                return None   # explicit hydrogen on a stereo unit: the recorded asymmetry; labels that depend on it may go too
            env = m.stereogenic_tetrahedrons[n]
            out.append(('t', n, m._translate_tetrahedron_sign(n, sorted(env))))
        elif n in m.stereogenic_allenes:
            n0, n1, n2, n3 = m.stereogenic_allenes[n]
            t1, t2 = m._stereo_allenes_terminals[n]
            if any(atoms[x].atomic_number == 1 for t in (t1, t2) for x in m._bonds[t]):
                return None   # explicit hydrogen on a stereo unit: the recorded asymmetry; labels that depend on it may go too
            ea = min(x for x in (n0, n2) if x is not None)
            eb = min(x for x in (n1, n3) if x is not None)
            if t1 < t2:
                out.append(('a', n, ea, eb, m._translate_allene_sign(n, ea, eb)))
            else:
                out.append(('a', n, eb, ea, m._translate_allene_sign(n, eb, ea)))
        else:
            out.append(('?', n, a.stereo))
    excluded_bonds = 0
    for (n, k), (n0, n1, n2, n3) in m.stereogenic_cis_trans.items():
        i, j = m._stereo_cis_trans_centers[n]
        if m._bonds[i][j].stereo is None:
            continue
        if any(atoms[x].atomic_number == 1 for t in (n, k) for x in m._bonds[t]):
            return None
        if len(m._bonds[n]) > 3 or len(m._bonds[k]) > 3:
            # an end with more than two substituents (hypervalent S / P): which of them the label refers to follows the storage
            # order of the neighbours, there is no order-free way to state the configuration - not compared
            excluded_bonds += 1
            continue
        ea = min(x for x in (n0, n2) if x is not None)
        eb = min(x for x in (n1, n3) if x is not None)
        s = m._translate_cis_trans_sign(n, k, ea, eb)
        out.append(('ct',) + tuple(sorted([(n, ea), (k, eb)])) + (s,))
    labelled = sum(1 for *_, b in m.bonds() if b.stereo is not None)
    if labelled != sum(1 for x in out if x[0] == 'ct') + excluded_bonds:
        out.append(('?bonds', labelled))
    return sorted(out, key=repr)


def mol_view(m, stereo=True):
    atoms = [(n, a.atomic_symbol, a.isotope, a.charge, a.is_radical) for n, a in m.atoms()]
    bonds = sorted((min(n, k), max(n, k), b.order) for n, k, b in m.bonds())
    v = {'atoms': atoms, 'bonds': bonds}
    if stereo:
        try:
            v['stereo'] = stereo_view(m)
        except Exception as e:
            v['stereo'] = 'EXC ' + type(e).__name__
    return v


def _unparsed(meta):
    """Did the reader put text aside that it could not parse?  (A key whose value is empty is kept aside by MRVRead as the raw
    property - that is no text lost.)"""
    for x in (meta or {}).get('chython_unparsed_metadata', ()) or ():
        if isinstance(x, dict) and not str((x.get('scalar') or {}).get('$', '') if isinstance(x.get('scalar'), dict) else '').strip():
            continue
        return True
    return False


def record_view(rec, fmt, stereo=True):
    from chython.containers import ReactionContainer
    if isinstance(rec, ReactionContainer):
        def member(m):
            v = mol_view(m, stereo)
            if fmt in ('rdf', 'mrv'):
                v['mname'] = m.name.strip()     # V2000 RXN members and MRV molecules have a title slot; V3000 members have none
            return v
        return {'kind': 'rxn', 'r': [member(m) for m in rec.reactants],
                'p': [member(m) for m in rec.products], 'a': [member(m) for m in rec.reagents],
                'name': rec.name.strip(), 'meta': norm_meta(rec._meta, fmt), 'log': bool((rec._meta or {}).get('chython_parsing_log')),
                'unparsed': _unparsed(rec._meta)}
    v = mol_view(rec, stereo)
    v['log'] = bool((rec._meta or {}).get('chython_parsing_log'))
    v['kind'] = 'mol'
    v['name'] = rec.name.strip()
    v['meta'] = norm_meta(rec._meta, fmt)
    v['unparsed'] = _unparsed(rec._meta)
    return v


def first_diff(a, b, path=''):
    if type(a) is not type(b):
        return f'{path}: {a!r} != {b!r}'
    if isinstance(a, dict):
        for k in sorted(set(a) | set(b)):
            if k not in a or k not in b:
                return f'{path}.{k}: {a.get(k)!r} != {b.get(k)!r}'
            d = first_diff(a[k], b[k], f'{path}.{k}')
            if d:
                return d
        return None
    if isinstance(a, (list, tuple)):
        if len(a) != len(b):
            return f'{path}: len {len(a)} != {len(b)}: {str(a)[:120]} | {str(b)[:120]}'
        for i, (x, y) in enumerate(zip(a, b)):
            d = first_diff(x, y, f'{path}[{i}]')
            if d:
                return d
        return None
    return None if a == b else f'{path}: {a!r} != {b!r}'


def diff_field(d):
    """Coarse field name of a first_diff() message, used in the violation class."""
    if d is None:
        return None
    p = d.split(':', 1)[0]
    for f in ('atoms', 'bonds', 'stereo', 'mname', 'name', 'meta', 'kind', 'unparsed'):
        if '.' + f in p:
            return f
    return 'roles' if p.startswith(('.r', '.p', '.a')) or 'len' in d else 'other'


def view_features(v):
    """Reach probes: which of the things the property enumerates a round-tripped record actually contained."""
    out = set()
    mols = [v] if v.get('kind') == 'mol' else v['r'] + v['p'] + v['a']
    if v.get('kind') == 'rxn':
        out.add('rxn')
        if v['a']:
            out.add('rxn:reagents')
        if not v['r']:
            out.add('rxn:no-reactants')
        if not v['p']:
            out.add('rxn:no-products')
        if len(v['r']) > 1 or len(v['p']) > 1:
            out.add('rxn:several-members-on-a-side')
    if v.get('meta'):
        out.add('meta')
        if any('\n' in str(x) for x in v['meta'].values()):
            out.add('meta:multi-line-value')
    if v.get('name'):
        out.add('title')
    for m in mols:
        nums = [a[0] for a in m['atoms']]
        if nums != list(range(1, len(nums) + 1)):
            out.add('atom-numbers-not-1..n')
        if len(nums) > 99:
            out.add('atoms>99')
        if len(nums) > 999:
            out.add('atoms>999')
        if not m['bonds']:
            out.add('no-bonds')
        for _, _, iso, ch, rad in m['atoms']:
            if iso:
                out.add('isotope')
            if ch:
                out.add('charge:%+d' % ch)
            if rad:
                out.add('radical')
        for _, _, o in m['bonds']:
            out.add('bond-order:%d' % o)
        st = m.get('stereo')
        if st:
            out.add('stereo-labels')
    return out
