"""C13 - edit histories, transactions, copies under a seeded scheduler with fault injection.

See DESIGN.md section 5.  One *run* = one history: a sequence of operations over an arena of live
molecules (handles).  Every operation is a JSON dict; the executed list is the replay file.  Atoms
are addressed by rank in the sorted atom list (modulo its length) so that deleting steps keeps the
rest of a trace meaningful for the minimiser.
"""
import copy as _copymod
import json
import os
import random
import sys
import time
import traceback
import zlib
from collections import Counter

from simkit import core, env
from checks.c13_model import (Model, Violation, Discard, check_primary, rebuild, resync, stereo_of, rebuild_other_order, order_free,
                              observe, OBSERVERS, OBS_INDEX, GRAPH_ONLY)
from checks.c13_rx import RxMixin, gen_rx_op, RX_NORMALISERS

PROP = 'C13'
MAXH = 4
MAX_ATOMS = 14
ELEMENTS = ['C', 'N', 'O', 'S', 'P', 'B', 'Cl', 'Br', 'F', 'H', 'Si', 'Fe', 'Cu']
ELEMENT_W = [30, 10, 10, 4, 3, 2, 3, 2, 3, 6, 2, 2, 1]
CHY_PREFIX = os.path.join(env.REPO, 'chython') + os.sep

# Thiele (aromatic-bond) forms: editing them is documented as unsupported, but copy / split / union / remap are not edits
AROMATIC_SEEDS = ['c1cc[nH]c1.Cl', 'c1ccccc1', 'Cc1ccccc1O', 'c1ccncc1', '[nH+]1ccccc1.[Cl-]', 'c1cnc[nH]1.OC(=O)C', 'c1ccc2ccccc2c1',
                  'Cc1cc[nH]n1', 'O=c1cccc[nH]1', 'c1ccoc1.CCO', 'c1ccsc1', 'Cn1ccnc1.[Na+].[Cl-]', 'c1ccc2[nH]ccc2c1', '[nH]1cccc1.[nH]1cccc1',
                  'C[n+]1ccccc1.[I-]', 'c1ccc(cc1)-c1ccccc1', 'OC(=O)c1ccccc1.N', 'c1cc[nH+]cc1.[O-]C(C)=O']
AROMATIC_KINDS = ['obs', 'obs', 'copy', 'sub', 'sub', 'union', 'union', 'remap', 'flush', 'drop', 'clean_stereo', 'set_meta', 'set_xy',
                  'opaque', 'opaque']
EDIT_KINDS = {'add_atom', 'add_bond', 'del_atom', 'del_bond', 'tx', 'add_atom_stereo', 'add_ct_stereo', 'invalid'}

SEEDS = [
    '',  # empty molecule, built up by add_atom / add_bond only
    'C', 'CC', 'CCO', 'CC(C)C', 'C=C', 'C#N', 'C=C=C', 'CC=C=CC', 'C=C=C=C',
    'C1CC1', 'C1CCC1C', 'C1CCCC1', 'C1CCCCC1', 'C1CC2CCC1C2', 'C1CC2CC1C2', 'C12(CCC1)CCC2', 'C1CC2CCCC2C1',
    'C1CC2CCC1CC2', 'C1C2CC1C2', 'C1=CC=CC=C1', 'C1=CC=CC=C1C', 'C1=CNC=C1', 'C1=COC=C1',
    'C[C@H](N)C(=O)O', 'C[C@@H](O)[C@H](O)C', 'C[C@@H](O)[C@@H](O)C', 'N[C@@H](C)C(=O)N[C@@H](CO)C(O)=O',
    'C/C=C/C', 'C/C=C\\Cl', 'F/C=C/C=C/Cl', 'CC=[C@]=CCl', 'C/C=C=C=C/C', 'C[C@H]1CC[C@@H](C)CC1',
    'C[C@H]1C[C@@H]1C', 'F[C@H](Cl)Br', 'C[C@@](F)(Cl)Br', 'C1CC1[C@H](F)Cl', 'O[C@H]1CCCC[C@H]1O',
    '[Na+].[Cl-]', 'CC(=O)[O-].[NH4+]', 'C[N+](C)(C)C', 'C[S+](C)[O-]', 'CS(C)=O', 'O=S(=O)(O)O', 'OP(O)(O)=O',
    '[O-][N+](=O)C', 'CN=[N+]=[N-]', 'B(O)O', 'C[Si](C)(C)C', '[CH3]', 'C[CH2]', 'C[O]', '[H]C([H])([H])O', '[H]O[H]',
    '[2H]C(Cl)(F)Br', '[13CH4]', 'Cl[Fe]Cl', 'N[Cu]N', 'CCN.CCO', 'C.C.C', 'OC(=O)C(O)=O', 'C1CC1.C1CC1', 'CC#CC',
    'C(=O)=O', 'N#N', 'S=C=S', 'C1CCC2(CC1)CC2', 'C1CC12CC2', 'CC(C)(C)C(C)(C)C', 'NC(N)=O', 'C[P+](C)(C)C',
    'C[C@H](O)[C@H](O)[C@@H](C)O', 'C/C=C/[C@H](O)/C=C\\C', 'C[C@H](O)[C@@H](O)[C@H](C)O', 'O[C@H]1C[C@@H](O)C1',
    'C[C@H]1C[C@H](C)C[C@H](C)C1', 'C/C=C/C(/C=C/C)=C/C', 'F[C@H](Cl)[C@@H](Br)[C@H](F)Cl', 'C[C@@H](F)C(Cl)[C@@H](F)C',
    'C1CCCCC1C1CCCC1', 'C1CC1C1CC1', 'C1CCC1C1CCC1', 'C1=CC=CC=C1C1=CC=CC=C1', 'C1CC1CC1CC1', 'C1CC1CCC1CC1', 'C1CCC2(CC1)OCCO2',
    'C[C@H]([13CH3])O', '[13CH3]/C(C)=C/C', '[2H][C@H](C)O', 'C[C@H]([13CH3])[C@H](C)O', 'CC(CC)=[C@]=CC', 'C[C@H](O)[C@H](CCN)[C@H](O)C',
    'ClC(Cl)Cl', 'BrCCBr', 'FC(F)(F)F', 'CSSC', 'C[S-]', 'C[NH-]', '[NH3+]CC([O-])=O',
    # appended later (seed indices are recorded in replay files): salts for the salt / metal normalisers
    'CC(=O)O[Na]', 'CO[K]', '[Li]OCC', 'CC(=O)O[Ca]OC(C)=O', 'CN.Cl', 'CC(O)=O.CCN', '[Na+].[K+].CC([O-])=O.[Cl-]', 'N.CCO.[Na+].[OH-]',
]

# fixed alphabet of op kinds (weights are drawn per run = swarm testing)
KINDS = ['set_meta', 'set_xy', 'obs', 'add_atom', 'add_bond', 'del_atom', 'del_bond', 'remap', 'union', 'copy', 'sub', 'drop', 'flush',
         'tx', 'clean_stereo', 'add_atom_stereo', 'add_ct_stereo', 'invalid', 'new', 'opaque']
BASE_W = {'set_meta': 2, 'set_xy': 3, 'obs': 10, 'add_atom': 9, 'add_bond': 12, 'del_atom': 8, 'del_bond': 9, 'remap': 5, 'union': 4, 'copy': 5,
          'sub': 5, 'drop': 1, 'flush': 1, 'tx': 12, 'clean_stereo': 1, 'add_atom_stereo': 3, 'add_ct_stereo': 3,
          'invalid': 3, 'new': 2, 'opaque': 5}
MUTATORS = {'set_meta', 'set_xy', 'add_atom', 'add_bond', 'del_atom', 'del_bond', 'remap', 'union', 'tx', 'clean_stereo',
            'add_atom_stereo', 'add_ct_stereo', 'invalid', 'opaque'}
OPAQUE = ['explicify_hydrogens', 'implicify_hydrogens', 'clean_isotopes', 'remove_coordinate_bonds', 'neutralize',
          'standardize', 'fix_resonance', 'kekule', 'standardize_charges', 'canonicalize', 'clean2d',
          'remove_metals', 'remove_acids', 'split_metal_salts', 'thiele']
INVALID_KINDS = 15


class SimFault(BaseException):
    """Injected crash.  BaseException: never swallowed by the library's own `except KeyError/ValueError`."""


class Handle:
    __slots__ = ('mol', 'model', 'born')

    def __init__(self, mol, model, born):
        self.mol = mol
        self.model = model
        self.born = born


class LineFault:
    """Raise SimFault at the `at`-th line event inside /repo/chython while armed; at=None only counts."""

    def __init__(self, at, skip_enter_frame=False):
        self.at = at
        self.count = 0
        self.armed = False
        self.where = None
        self.skip_enter = skip_enter_frame

    def global_trace(self, frame, event, arg):
        if frame.f_code.co_filename.startswith(CHY_PREFIX):
            return self.local_trace
        return None

    def local_trace(self, frame, event, arg):
        if event == 'line' and self.armed:
            if self.skip_enter and frame.f_code.co_name == '__enter__':
                return self.local_trace
            self.count += 1
            if self.count == self.at:
                co = frame.f_code
                self.where = (co.co_filename[len(CHY_PREFIX):], co.co_name, frame.f_lineno)
                self.armed = False
                raise SimFault()
        return self.local_trace


_corpus = None


def corpus_smiles():
    global _corpus
    if _corpus is None:
        import csv
        with open(os.path.join(env.REPO, 'pach', 'lipophilicity.csv')) as f:
            _corpus = [row['smiles'] for row in csv.DictReader(f)]
    return _corpus


def _element_class(sym):
    from chython.periodictable import Element
    return Element.from_symbol(sym)


def _isotopes(sym):
    return sorted(_element_class(sym)().isotopes_distribution)


class Sim(RxMixin):
    def __init__(self, config, probes=None):
        self.cfg = config
        self.handles = []
        self.rxs = []          # reactions built from copies of arena molecules (checks/c13_rx.py)
        install_layout_stub()
        random.seed(0x5EED)     # the library draws from the global generator (random-ordered SMILES handed to the layout engine)
        self.probes = probes if probes is not None else Counter()
        self.steps = 0
        self.sig = []          # distinctness signature
        self.mut_then_obs = False
        self.last_tx_events = None
        self.last_tx_where = None
        self.checks = 0
        self.digest = 0

    # ------------------------------------------------------------------ helpers
    def _h(self, op, key='h'):
        if not self.handles:
            return None
        return op.get(key, 0) % len(self.handles)

    @staticmethod
    def _atom(model, r):
        if not model.atoms:
            return None
        s = sorted(model.atoms)
        return s[r % len(s)]

    def _cache_sig(self, mol):
        return hash(frozenset(k for k in mol.__dict__ if 'lock' not in k)) & 0xffffffff

    # ------------------------------------------------------------------ oracle
    def check_handle(self, hi, touched, rng, where=''):
        h = self.handles[hi]
        mol, model = h.mol, h.model
        self.checks += 1
        check_primary(mol, model)
        if mol.name != model.name:
            raise Violation('primary-mismatch', f'name {mol.name!r} != {model.name!r}')
        if dict(mol._meta or {}) != model.meta:
            raise Violation('primary-mismatch', f'meta {mol._meta!r} != {model.meta!r}')
        if getattr(mol, '_backup', None) is not None:
            raise Violation('transaction-left-open', 'snapshot still held after the block ended')
        ast, bst = stereo_of(mol)
        if touched is None:
            ea, eb = ast, bst
        else:
            ta = model.near(touched, 2)
            tb = model.near(touched, 3)
            ea = {}
            for n in model.atoms:
                s = ast.get(n) if n in ta else model.astereo.get(n)
                if s is not None:
                    ea[n] = s
            eb = {}
            for k in set(bst) | set(model.bstereo):
                if k[0] not in model.atoms or k[1] not in model.atoms or k[1] not in model.bonds[k[0]]:
                    continue
                s = bst.get(k) if (k[0] in tb or k[1] in tb) else model.bstereo.get(k)
                if s is not None:
                    eb[k] = s
        try:
            r = rebuild(mol, model, ea, eb)
        except Exception as e:
            from chython.exceptions import ImplementationError
            if isinstance(e, ImplementationError):
                raise Discard(f'ImplementationError in rebuild: {e}')
            raise
        # domain: chython's label book-keeping maps an atom to one stereogenic double-bond unit; hypervalent
        # junction atoms that belong to two units (C=C(=C)...) are outside what the labels can represent
        if _overlapping_units(r):
            raise Discard('overlapping stereogenic double-bond units')
        rast, rbst = stereo_of(r)
        if ast != rast or bst != rbst:
            da = {n: (ast.get(n), rast.get(n)) for n in set(ast) | set(rast) if ast.get(n) != rast.get(n)}
            db = {k: (bst.get(k), rbst.get(k)) for k in set(bst) | set(rbst) if bst.get(k) != rbst.get(k)}
            raise Violation('derived-mismatch:stereo', f'(mol, rebuilt) atoms {da} bonds {db}')
        saved = dict(mol.__dict__)
        names = [k for k, _ in OBSERVERS]
        rng.shuffle(names)
        if self.cfg.get('obs_limit'):
            names = names[:self.cfg['obs_limit']]
        bad = []
        for name in names:
            v1 = observe(mol, name)
            v2 = observe(r, name)
            if name != 'hash':   # hash(str) depends on PYTHONHASHSEED by definition of Python
                self.digest = zlib.crc32(repr((name, v1)).encode(), self.digest)
            if v1 != v2:
                bad.append((OBS_INDEX[name], name, v1, v2))
        if bad:
            # all observers are evaluated in the seeded order; the report names the first mismatching one in the
            # fixed catalogue order so that one root cause gives one violation class
            _, name, v1, v2 = min(bad)
            raise Violation(f'derived-mismatch:{name}', f'{where} mol={_short(v1)} rebuilt={_short(v2)} '
                                                        f'(also: {[b[1] for b in sorted(bad)][1:8]})')
        try:
            eq = (mol == r)
        except Exception as e:
            eq = isinstance(observe(r, 'str'), tuple)   # both must fail alike (str() of the empty molecule raises)
        if not eq:
            raise Violation('derived-mismatch:eq', 'mol != rebuilt')
        model.astereo, model.bstereo = ast, bst
        if model.aromatic:
            self._check_kekule_twin(mol, where)
        if touched is None or touched or rng.random() < 0.3:
            # a twin stored in another order: marks and counts must not depend on the order of insertion
            try:
                v1, v2 = order_free(mol), order_free(rebuild_other_order(model))
            except Discard:
                raise
            except Exception as e:
                from chython.exceptions import ImplementationError
                if isinstance(e, ImplementationError):
                    raise Discard(f'ImplementationError in the reordered twin: {e}')
                raise Violation(f'unexpected-exception:reordered-twin:{type(e).__name__}', f'{where}: {e!r}')
            if v1 != v2:
                k = next(q for q in v1 if v1[q] != v2[q])
                d = [x for x in v1[k] if x not in v2[k]][:4] if isinstance(v1[k], list) else v1[k]
                d2 = [x for x in v2[k] if x not in v1[k]][:4] if isinstance(v2[k], list) else v2[k]
                raise Violation(f'derived-mismatch:order-dependent:{k}', f'{where}: mol={_short(d)} twin stored in another order={_short(d2)}')
            self.probes['reordered_twin_checked'] += 1
        if rng.random() < self.cfg.get('sparse_p', 0.0):
            mol.__dict__ = saved   # as if the caller had not read anything: cache state before the check
            self.probes['sparse_restore'] += 1

    def _check_kekule_twin(self, mol, where):
        """Hydrogens of aromatic atoms are carried into the rebuilt twin, so the comparison above cannot see a wrong one.
        A Kekule form can: kekule() on a copy must give a molecule whose hydrogen counts and marks equal what a rebuild of
        that Kekule structure computes from scratch."""
        from chython.exceptions import InvalidAromaticRing
        c = mol.copy()
        try:
            c.kekule()
        except InvalidAromaticRing:
            self.probes['kekule_of_thiele_refused'] += 1
            return
        except Exception as e:
            raise Violation(f'unexpected-exception:kekule-of-copy:{type(e).__name__}', f'{where}: {e!r}')
        if any(b.order == 4 for *_, b in c.bonds()):
            self.probes['kekule_left_aromatic_bonds'] += 1
            return
        h1 = {n: a.implicit_hydrogens for n, a in mol.atoms()}
        h2 = {n: a.implicit_hydrogens for n, a in c.atoms()}
        if h1 != h2:
            d = {n: (h1.get(n), h2.get(n)) for n in h1 if h1.get(n) != h2.get(n)}
            raise Violation('derived-mismatch:kekule-twin:hydrogens', f'{where}: hydrogen counts (Thiele form, its Kekule form): {d}')
        tmp = Model()
        resync(tmp, c)
        ast, bst = stereo_of(c)
        try:
            r = rebuild(c, tmp, ast, bst)
        except Exception:
            return
        for name in ('atom_labels', 'str', 'fmt_h'):
            v1, v2 = observe(c, name), observe(r, name)
            if v1 != v2:
                raise Violation(f'derived-mismatch:kekule-twin:{name}', f'{where}: Kekule form of the Thiele form: mol={_short(v1)} rebuilt={_short(v2)}')
        self.probes['kekule_twin_checked'] += 1

    def check_all(self, acting, touched, c, where=''):
        rng = random.Random(c)
        order = list(range(len(self.handles)))
        if acting is not None and acting in order:
            order.remove(acting)
            order.insert(0, acting)
        for hi in order:
            try:
                self.check_handle(hi, touched if hi == acting else set(), rng, where)
            except Violation as v:
                if hi != acting and acting is not None:
                    raise Violation(f'cross-handle-interference:{v.cls}', f'handle {hi} (acting {acting}) {v.detail}')
                raise

    # ------------------------------------------------------------------ dispatch
    def apply(self, op):
        self.steps += 1
        kind = op['op']
        hi = self._h(op)
        pre_sig = None
        if hi is not None and kind in MUTATORS:
            pre_sig = self._cache_sig(self.handles[hi].mol)
        if hi is not None and kind in EDIT_KINDS and self.handles[hi].model.aromatic:
            self.sig.append((kind, 'skip-aromatic'))
            return          # editing a Thiele form is documented as unsupported
        try:
            res = getattr(self, 'op_' + kind)(op)
        except Violation as v:
            if v.cls.startswith('unexpected-exception') and hi is not None and hi < len(self.handles):
                # an exception on a state outside the label book-keeping domain (see check_handle) is not a result
                try:
                    tmp = Model()
                    resync(tmp, self.handles[hi].mol)
                    r = rebuild(self.handles[hi].mol, tmp, {}, {})
                    if _overlapping_units(r):
                        raise Discard('overlapping stereogenic double-bond units')
                except Discard:
                    raise
                except Exception:
                    pass
            raise
        if res is None:
            self.sig.append((kind, 'skip'))
            return
        if res[0] == 'rx':
            self.sig.append((kind, op.get('name') if kind == 'rx_norm' else None, (op.get('edit') or {}).get('op')))
            self.check_rxs(res[1], op.get('c', 0), where=kind)
            return
        acting, touched = res
        self.sig.append((kind, pre_sig, op.get('mode') or op.get('kind')))
        if kind in MUTATORS:
            self.mut_then_obs = True
        self.check_all(acting, touched, op.get('c', 0), where=kind)
        if self.rxs:
            # reactions were built from copies: nothing done to an arena molecule may show in them
            rrng = random.Random(op.get('c', 0) ^ 0x77)
            for ri in range(len(self.rxs)):
                try:
                    self.check_rx(ri, rrng, where=kind)
                except Violation as v:
                    raise Violation(f'cross-reaction-interference:{v.cls}', f'reaction {ri} after {kind} on a molecule: {v.detail}')

    # ------------------------------------------------------------------ births
    def op_new(self, op):
        if len(self.handles) >= self.cfg.get('max_handles', MAXH):
            return None
        from chython import smiles
        from chython.containers import MoleculeContainer
        limit = MAX_ATOMS
        aromatic = bool(self.cfg.get('aromatic'))
        if aromatic:
            s = AROMATIC_SEEDS[op['seed'] % len(AROMATIC_SEEDS)]
            limit = 24
        elif 'corpus' in op:
            # drug-like molecules of the shipped corpus in Kekule form (bigger: up to 40 atoms)
            cs = corpus_smiles()
            s = cs[op['corpus'] % len(cs)]
            limit = 40
        else:
            s = SEEDS[op['seed'] % len(SEEDS)]
        try:
            mol = smiles(s) if s else MoleculeContainer()
            if 'corpus' in op:
                mol.kekule()
                self.probes['corpus_seed'] += 1
        except Exception as e:
            self.probes['seed_parse_failed'] += 1
            return None
        if len(mol) > limit or (not aromatic and any(b.order == 4 for *_, b in mol.bonds())):
            self.probes['seed_out_of_domain'] += 1
            return None
        model = Model()
        model.aromatic = aromatic
        if aromatic:
            self.probes['aromatic_seed'] += 1
        resync(model, mol)
        self.handles.append(Handle(mol, model, 'seed'))
        try:
            self.check_handle(len(self.handles) - 1, None, random.Random(op.get('c', 0)), 'birth')
        except Violation:
            self.handles.pop()
            self.probes['seed_rejected'] += 1
            self.probes['seed_rejected:' + s] += 1
            return None
        return len(self.handles) - 1, set()

    def _born(self, mol, model, how):
        self.handles.append(Handle(mol, model, how))
        return len(self.handles) - 1

    # ------------------------------------------------------------------ observers
    def op_obs(self, op):
        hi = self._h(op)
        if hi is None:
            return None
        mol = self.handles[hi].mol
        for k in op['names']:
            observe(mol, OBSERVERS[k % len(OBSERVERS)][0])
        self.probes['obs_ops'] += 1
        return hi, set()

    def op_flush(self, op):
        hi = self._h(op)
        if hi is None:
            return None
        mol = self.handles[hi].mol
        if op.get('keep'):
            mol.flush_cache(keep_sssr=True, keep_components=True)
        else:
            mol.flush_cache()
        return hi, set()

    def op_drop(self, op):
        if len(self.handles) < 2:
            return None
        hi = self._h(op)
        self.handles.pop(hi)
        return None if not self.handles else (0, set())

    # ------------------------------------------------------------------ modelled mutators
    def _do(self, opname, valid, real):
        """Returns True if the call raised."""
        try:
            real()
        except SimFault:
            raise
        except Discard:
            raise
        except Exception as e:
            if valid:
                tb = traceback.extract_tb(e.__traceback__)
                last = tb[-1]
                raise Violation(f'unexpected-exception:{opname}:{type(e).__name__}',
                                f'{e!r} at {os.path.basename(last.filename)}:{last.name}')
            return True
        return False

    def _add_atom_args(self, op, model):
        from chython.periodictable import Element
        sym = ELEMENTS[op['el'] % len(ELEMENTS)]
        form = op.get('form', 0) % 3
        n = op.get('n')
        spec_iso, ch, rad = None, 0, False
        if form == 0:
            arg = sym
        elif form == 1:
            arg = _element_class(sym)().atomic_number
        else:
            isos = _isotopes(sym)
            k = op.get('iso', 0)
            spec_iso = None if not k else isos[(k - 1) % len(isos)]
            ch = max(-4, min(4, op.get('ch', 0)))
            rad = bool(op.get('rad', False))
            arg = _element_class(sym)(spec_iso, charge=ch, is_radical=rad)
        z = _element_class(sym)().atomic_number
        valid = n is None or (isinstance(n, int) and n not in model.atoms)
        new_n = n if n is not None else max(model.atoms, default=0) + 1
        return arg, n, new_n, (z, spec_iso, ch, rad), valid

    def op_add_atom(self, op, tx=None):
        hi = self._h(op)
        if hi is None:
            return None
        h = self.handles[hi]
        mol, model = h.mol, (tx if tx is not None else h.model)
        if len(model.atoms) >= self.cfg.get('max_atoms', MAX_ATOMS):
            return None
        arg, n, new_n, spec, valid = self._add_atom_args(op, model)
        if tx is not None:
            if not valid:
                self._inner_invalid = True
            got = mol.add_atom(arg) if n is None else mol.add_atom(arg, n)
            if valid and got != new_n:
                raise Violation('primary-mismatch', f'add_atom returned {got}, expected {new_n}')
            model.add_atom(new_n, spec)
            return hi, set()
        box = []
        raised = self._do('add_atom', valid, lambda: box.append(mol.add_atom(arg) if n is None else mol.add_atom(arg, n)))
        if not valid:
            resync(model, mol)
            return hi, None
        if box[0] != new_n:
            raise Violation('primary-mismatch', f'add_atom returned {box[0]}, expected {new_n}')
        model.add_atom(new_n, spec)
        return hi, set()

    def op_add_bond(self, op, tx=None):
        from chython.containers.bonds import Bond
        hi = self._h(op)
        if hi is None:
            return None
        h = self.handles[hi]
        mol, model = h.mol, (tx if tx is not None else h.model)
        n, m = self._atom(model, op['a']), self._atom(model, op['b'])
        if n is None:
            return None
        order = op.get('order', 1)
        valid = n != m and m not in model.bonds[n] and order in (1, 2, 3, 8)
        arg = Bond(order) if op.get('obj') and order in (1, 2, 3, 8) else order
        if tx is not None:
            if not valid:
                self._inner_invalid = True
            mol.add_bond(n, m, arg)
            model.add_bond(n, m, order)
            if order == 8:
                self.probes['order8_added'] += 1
            return hi, {n, m}
        self._do('add_bond', valid, lambda: mol.add_bond(n, m, arg))
        if not valid:
            resync(model, mol)
            return hi, None
        model.add_bond(n, m, order)
        if order == 8:
            self.probes['order8_added'] += 1
        return hi, {n, m}

    def op_set_meta(self, op):
        hi = self._h(op)
        if hi is None:
            return None
        h = self.handles[hi]
        if op.get('name') is not None:
            h.mol.name = op['name']
            h.model.name = op['name']
        else:
            h.mol.meta[op.get('k', 'k')] = op.get('v', 'v')
            h.model.meta[op.get('k', 'k')] = op.get('v', 'v')
        self.probes['set_meta'] += 1
        return hi, set()

    @staticmethod
    def _set_xy(mol, n, op):
        how = op.get('how', 0) % 3
        x, y = float(op.get('x', 0)), float(op.get('y', 0))
        a = mol.atom(n)
        if how == 0:
            a.x = x
            return (x, a.y)
        if how == 1:
            a.y = y
            return (a.x, y)
        a.xy = (x, y)
        return (x, y)

    def op_set_xy(self, op, tx=None):
        hi = self._h(op)
        if hi is None:
            return None
        h = self.handles[hi]
        mol, model = h.mol, (tx if tx is not None else h.model)
        n = self._atom(model, op['a'])
        if n is None:
            return None
        box = []
        if tx is not None:
            model.xy[n] = self._set_xy(mol, n, op)
        else:
            self._do('set_xy', True, lambda: box.append(self._set_xy(mol, n, op)))
            model.xy[n] = box[0]
            # an atom object has no way back to its molecule: the attribute setters' docstrings tell the caller to flush the
            # cache himself (or to use `with mol:`), and the wedge map / depiction are derived from the coordinates
            mol.flush_cache()
        self.probes['set_xy'] += 1
        return hi, set()

    def op_del_atom(self, op, tx=None):
        hi = self._h(op)
        if hi is None:
            return None
        h = self.handles[hi]
        mol, model = h.mol, (tx if tx is not None else h.model)
        n = self._atom(model, op['a'])
        if n is None:
            return None
        touched = set(model.bonds[n])
        if tx is not None:
            mol.delete_atom(n)
            model.delete_atom(n)
            return hi, touched
        self._do('delete_atom', True, lambda: mol.delete_atom(n))
        model.delete_atom(n)
        return hi, touched

    def op_del_bond(self, op, tx=None):
        hi = self._h(op)
        if hi is None:
            return None
        h = self.handles[hi]
        mol, model = h.mol, (tx if tx is not None else h.model)
        n = self._atom(model, op['a'])
        if n is None or not model.bonds[n]:
            return None
        nb = sorted(model.bonds[n])
        m = nb[op.get('bi', 0) % len(nb)]
        if model.bonds[n][m] == 8:
            self.probes['order8_deleted'] += 1
        if tx is not None:
            mol.delete_bond(n, m)
            model.delete_bond(n, m)
            return hi, {n, m}
        self._do('delete_bond', True, lambda: mol.delete_bond(n, m))
        model.delete_bond(n, m)
        return hi, {n, m}

    def _remap_mapping(self, op, model):
        atoms = sorted(model.atoms)
        kind = op.get('kind', 'swap')
        if not atoms:
            return {}
        if kind == 'swap':
            a, b = self._atom(model, op['a']), self._atom(model, op['b'])
            return {a: b, b: a} if a != b else {a: a}
        if kind == 'shift':
            k = op.get('k', 1)
            return {n: n + k for n in atoms}
        if kind == 'one':
            a = self._atom(model, op['a'])
            return {a: op.get('k', 1)}
        if kind == 'perm':
            tgt = list(atoms)
            random.Random(op.get('k', 0)).shuffle(tgt)
            return dict(zip(atoms, tgt))
        if kind == 'partial':
            sub = [n for i, n in enumerate(atoms) if (op.get('k', 0) >> i) & 1] or atoms[:1]
            base = max(atoms) + 1 + op.get('a', 0) % 5
            return {n: base + i for i, n in enumerate(sub)}
        return {}

    def op_remap(self, op):
        hi = self._h(op)
        if hi is None:
            return None
        h = self.handles[hi]
        mol, model = h.mol, h.model
        if not model.atoms:
            return None
        mapping = self._remap_mapping(op, model)
        valid = len(mapping) == len(set(mapping.values())) and \
            (model.atoms.keys() - mapping.keys()).isdisjoint(mapping.values()) and all(v > 0 for v in mapping.values())
        conf = self._configurations(mol) if valid else None
        raised = self._do('remap', valid, lambda: mol.remap(dict(mapping)))
        if not valid:
            resync(model, mol)
            return hi, None
        model.remap(mapping)
        self.probes['remap'] += 1
        if conf:
            # renumbering must not change what a label means: the sign read for the *renamed* neighbours, in the order
            # they had before, is the sign that was stored (raw labels are relative to the storage order of the neighbours)
            g = lambda x: mapping.get(x, x)   # noqa: E731
            for kind, key, env, sign in conf:
                try:
                    if kind == 't':
                        now = mol._translate_tetrahedron_sign(g(key), tuple(g(x) for x in env))
                    elif kind == 'a':
                        now = mol._translate_allene_sign(g(key), g(env[0]), g(env[1]))
                    else:
                        now = mol._translate_cis_trans_sign(g(key[0]), g(key[1]), g(env[0]), g(env[1]))
                except Exception as e:
                    raise Violation('derived-mismatch:configuration-after-remap', f'{kind} {key}: {e!r}')
                if now != sign:
                    raise Violation('derived-mismatch:configuration-after-remap',
                                    f'{kind} centre {key} -> {g(key) if kind != "c" else (g(key[0]), g(key[1]))}: neighbours {env} read {sign} '
                                    f'before and {now} after renumbering with {mapping}')
            self.probes['configurations_followed_through_remap'] += len(conf)
        return hi, set()

    @staticmethod
    def _configurations(mol):
        """(kind, centre, reference neighbours, sign) of every labelled stereo unit, through the library's translation helpers."""
        out = []
        try:
            for n, a in mol._atoms.items():
                if a._stereo is None:
                    continue
                if n in mol.stereogenic_tetrahedrons:
                    env = tuple(mol.stereogenic_tetrahedrons[n])
                    out.append(('t', n, env, mol._translate_tetrahedron_sign(n, env)))
                elif n in mol.stereogenic_allenes:
                    e = mol.stereogenic_allenes[n]
                    out.append(('a', n, (e[0], e[1]), mol._translate_allene_sign(n, e[0], e[1])))
            for (n, m), e in mol.stereogenic_cis_trans.items():
                i, j = mol._stereo_cis_trans_centers[n]
                if mol._bonds[i][j]._stereo is None:
                    continue
                out.append(('c', (n, m), (e[0], e[1]), mol._translate_cis_trans_sign(n, m, e[0], e[1])))
        except Exception:
            return []
        return out

    def op_union(self, op):
        hi, gi = self._h(op), self._h(op, 'g')
        if hi is None:
            return None
        a, b = self.handles[hi], self.handles[gi]
        if len(a.model.atoms) + len(b.model.atoms) > self.cfg.get('max_atoms', MAX_ATOMS) + 4:
            return None
        mode = op.get('mode', 'or')
        if op.get('shift') and gi != hi and b.model.atoms:
            # renumber the right operand first so that the numbers are disjoint (the branch of union() that does not renumber)
            k = max(a.model.atoms, default=0) + op['shift']
            mp = {n: n + k for n in b.model.atoms}
            self._do('remap', True, lambda: b.mol.remap(dict(mp)))
            b.model.remap(mp)
            self.probes['union_disjoint_by_shift'] += 1
        collide = bool(a.model.atoms.keys() & b.model.atoms.keys())
        inplace = mode in ('ior', 'union_nc')
        if not inplace and len(self.handles) >= self.cfg.get('max_handles', MAXH):
            return None
        if mode == 'union_nr' and collide:
            self._do('union', False, lambda: a.mol.union(b.mol))
            return hi, set()   # documented refusal; nothing may have changed
        bm = b.model.copy()
        if collide:
            start = max(a.model.atoms) + 1
            bm.remap({n: i for i, n in enumerate(list(b.mol), start=start)})
            self.probes['union_collision'] += 1
        box = []
        if mode == 'or':
            f = lambda: box.append(a.mol | b.mol)
        elif mode == 'ior':
            def f():
                m = a.mol
                m |= b.mol
                box.append(m)
        elif mode == 'union':
            f = lambda: box.append(a.mol.union(b.mol, remap=True))
        elif mode == 'union_nr':
            f = lambda: box.append(a.mol.union(b.mol))
        else:
            f = lambda: box.append(a.mol.union(b.mol, remap=True, copy=False))
        self._do('union', True, f)
        u = box[0]
        if inplace:
            if u is not a.mol:
                raise Violation('primary-mismatch', 'in-place union returned another object')
            a.model.merge(bm)
            self.probes['union_inplace'] += 1
            return hi, set()
        if u is a.mol or u is b.mol:
            raise Violation('cross-handle-interference:identity', 'union returned one of its operands')
        um = a.model.copy()
        um.merge(bm)
        ni = self._born(u, um, 'union')
        self._fresh = ni
        return ni, set()

    def op_copy(self, op):
        hi = self._h(op)
        if hi is None or len(self.handles) >= self.cfg.get('max_handles', MAXH):
            return None
        h = self.handles[hi]
        box = []
        via = op.get('via', 0) % 3
        if via == 0:
            f = lambda: box.append(h.mol.copy(keep_sssr=bool(op.get('ks')), keep_components=bool(op.get('kc'))))
        elif via == 1:
            f = lambda: box.append(_copymod.copy(h.mol))
        else:
            f = lambda: box.append(h.mol.copy())
        if op.get('ks') and 'sssr' in h.mol.__dict__:
            self.probes['copy_keep_sssr_nonempty'] += 1
        self._do('copy', True, f)
        ni = self._born(box[0], h.model.copy(), 'copy')
        return ni, set()

    def op_sub(self, op):
        hi = self._h(op)
        if hi is None or len(self.handles) >= self.cfg.get('max_handles', MAXH):
            return None
        h = self.handles[hi]
        model = h.model
        if not model.atoms:
            return None
        mode = op.get('mode', 'substructure')
        if model.aromatic:
            mode = 'split'      # substructure() recalculates hydrogens, which aromatic forms do not support; split() carries them
        atoms_sorted = sorted(model.atoms)
        pick = sorted({atoms_sorted[r % len(atoms_sorted)] for r in op.get('atoms', [0])})
        box = []
        if mode == 'substructure':
            keep = set(pick)
            f = lambda: box.append(h.mol.substructure(list(pick)))
        elif mode == 'and':
            keep = set(pick)
            f = lambda: box.append(h.mol & set(pick))
        elif mode == 'minus':
            keep = set(model.atoms) - set(pick)
            if not keep:
                return None
            f = lambda: box.append(h.mol - list(pick))
        elif mode == 'aug':
            deep = 1 + op.get('deep', 0) % 2
            keep = model.near(pick, deep)
            f = lambda: box.append(h.mol.augmented_substructure(list(pick), deep=deep))
        elif mode == 'split':
            comps = _components(model)
            c = comps[op.get('k', 0) % len(comps)]
            keep = set(c)

            def f():
                parts = h.mol.split()
                if sorted(sorted(p) for p in parts) != sorted(sorted(x) for x in comps):
                    raise Violation('derived-mismatch:split', f'{[sorted(p) for p in parts]} != {comps}')
                box.append(next(p for p in parts if set(p) == keep))
        else:
            return None
        self._do('sub:' + mode, True, f)
        sm = model.induced(keep)
        touched = {n for n in keep if any(m not in keep for m in model.bonds[n])}
        if mode == 'split':
            self.probes['split'] += 1
        ni = self._born(box[0], sm, 'sub')
        return ni, touched

    # ------------------------------------------------------------------ stereo
    def op_clean_stereo(self, op):
        hi = self._h(op)
        if hi is None:
            return None
        h = self.handles[hi]
        self._do('clean_stereo', True, h.mol.clean_stereo)
        if h.model.astereo or h.model.bstereo:
            self.probes['clean_stereo_nonempty'] += 1
        h.model.astereo, h.model.bstereo = {}, {}
        return hi, set()

    def op_add_atom_stereo(self, op):
        hi = self._h(op)
        if hi is None:
            return None
        h = self.handles[hi]
        mol = h.mol
        try:
            cand = sorted(mol.chiral_tetrahedrons | mol.chiral_allenes)
        except Exception as e:
            from chython.exceptions import ImplementationError
            if isinstance(e, ImplementationError):
                raise Discard('sssr')
            raise Violation(f'unexpected-exception:chiral_sets:{type(e).__name__}', repr(e))
        if not cand:
            return None
        n = cand[op.get('k', 0) % len(cand)]
        mark = bool(op.get('mark'))
        if n in mol.chiral_tetrahedrons:
            env_ = list(mol.stereogenic_tetrahedrons[n])
            random.Random(op.get('p', 0)).shuffle(env_)
            self.probes['tetra_label_added'] += 1
        else:
            e = mol.stereogenic_allenes[n]
            env_ = [e[0], e[1]]
            self.probes['allene_label_added'] += 1
        self._do('add_atom_stereo', True, lambda: mol.add_atom_stereo(n, tuple(env_), mark))
        if mol._atoms[n]._stereo is None:
            raise Violation('derived-mismatch:stereo', f'add_atom_stereo({n}) left no label')
        return hi, {n}

    def op_add_ct_stereo(self, op):
        hi = self._h(op)
        if hi is None:
            return None
        h = self.handles[hi]
        mol = h.mol
        try:
            cand = sorted(mol.chiral_cis_trans)
        except Exception as e:
            from chython.exceptions import ImplementationError
            if isinstance(e, ImplementationError):
                raise Discard('sssr')
            raise Violation(f'unexpected-exception:chiral_sets:{type(e).__name__}', repr(e))
        if not cand:
            return None
        n, m = cand[op.get('k', 0) % len(cand)]
        e = mol.stereogenic_cis_trans[(n, m)]
        mark = bool(op.get('mark'))
        self._do('add_cis_trans_stereo', True, lambda: mol.add_cis_trans_stereo(n, m, e[0], e[1], mark))
        self.probes['ct_label_added'] += 1
        return hi, {n, m}

    # ------------------------------------------------------------------ invalid operations (F5 / F2)
    def _invalid_call(self, mol, model, k):
        from chython.periodictable import Element
        atoms = sorted(model.atoms)
        a = atoms[0] if atoms else 1
        b = atoms[-1] if atoms else 2
        bonded = next(((n, m) for n in atoms for m in model.bonds[n]), None)
        missing = max(atoms, default=0) + 50
        k %= INVALID_KINDS
        if k == 0:
            return lambda: mol.add_bond(a, a, 1)
        if k == 1 and bonded:
            return lambda: mol.add_bond(bonded[0], bonded[1], 1)
        if k == 2:
            return lambda: mol.add_bond(a, missing, 1)
        if k == 3 and atoms:
            return lambda: mol.add_atom('C', a)
        if k == 4:
            return lambda: mol.add_atom('Xx')
        if k == 5:
            return lambda: mol.add_atom(3.5)
        if k == 6 and len(atoms) > 1 and b not in model.bonds[a]:
            return lambda: mol.add_bond(a, b, 7)
        if k == 7:
            return lambda: mol.delete_atom(missing)
        if k == 8 and len(atoms) > 1 and b not in model.bonds[a]:
            return lambda: mol.delete_bond(a, b)
        if k == 9 and len(atoms) > 1:
            return lambda: mol.remap({a: b})
        if k == 10:
            return lambda: mol.substructure([missing])
        if k == 11:
            return lambda: mol.union(42)
        if k == 12 and atoms:
            return lambda: setattr(mol.atom(a), 'charge', 9)
        if k == 13:
            return lambda: mol.add_atom(Element.from_symbol('C')(), 'x')
        if k == 14 and len(atoms) > 1 and b not in model.bonds[a]:
            return lambda: mol.add_bond(a, b, 'x')
        return None

    def op_invalid(self, op):
        hi = self._h(op)
        if hi is None:
            return None
        h = self.handles[hi]
        f = self._invalid_call(h.mol, h.model, op.get('kind', 0))
        if f is None:
            return None
        raised = self._do('invalid', False, f)
        self.probes['invalid_raised' if raised else 'invalid_silent'] += 1
        resync(h.model, h.mol)
        return hi, None

    # ------------------------------------------------------------------ opaque mutators
    def op_opaque(self, op):
        hi = self._h(op)
        if hi is None:
            return None
        h = self.handles[hi]
        name = OPAQUE[op.get('name', 0) % len(OPAQUE)]
        from chython.exceptions import ValenceError, InvalidAromaticRing, ImplementationError
        try:
            getattr(h.mol, name)()
        except (ValenceError, InvalidAromaticRing):
            self.probes['opaque_refused'] += 1
        except ImplementationError if name == 'clean2d' else ():      # the layout engine gives up on some graphs
            self.probes['opaque_refused'] += 1
        except SimFault:
            raise
        except Exception as e:
            if isinstance(observe(h.mol, 'str'), tuple):
                # a state whose signature cannot be written at all (the rebuilt twin raises the same way, which is what the
                # step before compared): a normaliser that needs the signature fails with it - nothing new is learnt
                self.probes['opaque_refused_unprintable'] += 1
            else:
                tb = traceback.extract_tb(e.__traceback__)[-1]
                raise Violation(f'unexpected-exception:{name}:{type(e).__name__}', f'{e!r} at {tb.name}')
        self.probes['opaque:' + name] += 1
        resync(h.model, h.mol)
        # a Thiele form can be read, copied, cut, united, renumbered and normalised again, but not edited (hydrogens of aromatic
        # heteroatoms are not recomputable): the handle switches between the two regimes with the form it is in
        h.model.aromatic = any(b.order == 4 for *_, b in h.mol.bonds())
        if h.model.aromatic:
            self.probes['opaque_made_aromatic'] += 1
        return hi, None

    # ------------------------------------------------------------------ transactions
    def _inner(self, hi, mol, txm, inner):
        k = inner['op']
        inner = dict(inner, h=hi)
        if k == 'set_charge':
            n = self._atom(txm, inner['a'])
            if n is None:
                return set()
            v = inner.get('v', 0)
            if not -4 <= v <= 4:
                self._inner_invalid = True
            mol.atom(n).charge = v
            z, iso, _, rad = txm.atoms[n]
            txm.atoms[n] = (z, iso, v, rad)
            self.probes['tx_charge'] += 1
            return {n}
        if k == 'set_radical':
            n = self._atom(txm, inner['a'])
            if n is None:
                return set()
            v = bool(inner.get('v'))
            mol.atom(n).is_radical = v
            z, iso, ch, _ = txm.atoms[n]
            txm.atoms[n] = (z, iso, ch, v)
            self.probes['tx_radical'] += 1
            return {n}
        if k == 'set_name':
            mol.name = inner.get('v', 'x')
            txm.name = inner.get('v', 'x')
            return set()
        if k == 'set_meta':
            mol.meta[inner.get('k', 'k')] = inner.get('v', 'v')
            txm.meta[inner.get('k', 'k')] = inner.get('v', 'v')
            return set()
        if k == 'obs':
            # reading graph-derived values inside the open block (labels are not recalculated there by design)
            try:
                r = rebuild(mol, txm, {}, {})
            except Exception as e:
                from chython.exceptions import ImplementationError
                if isinstance(e, ImplementationError):
                    raise Discard('sssr')
                raise
            for i in inner.get('names', [0]):
                name = GRAPH_ONLY[i % len(GRAPH_ONLY)]
                v1, v2 = observe(mol, name), observe(r, name)
                if v1 != v2:
                    raise Violation(f'derived-mismatch:{name}', f'inside transaction: mol={_short(v1)} rebuilt={_short(v2)}')
            self.probes['tx_obs_inside'] += 1
            return set()
        if k == 'invalid':
            f = self._invalid_call(mol, txm, inner.get('kind', 0))
            if f is None:
                return set()
            self._inner_invalid = True
            f()
            self._inner_silent = True   # did not raise: state unknown
            return set()
        if k in ('add_atom', 'add_bond', 'del_atom', 'del_bond', 'set_xy'):
            res = getattr(self, 'op_' + k)(inner, tx=txm)
            self.probes['tx_' + k] += 1
            return set() if res is None else (res[1] or set())
        return set()

    def op_tx(self, op):
        hi = self._h(op)
        if hi is None:
            return None
        h = self.handles[hi]
        mol, model = h.mol, h.model
        body = op.get('body', [])
        fault = op.get('fault')
        fk = fault['kind'] if fault else None
        txm = model.copy()
        touched = set()
        lf = None
        if fk in ('line', 'enter'):
            lf = LineFault(fault.get('at'), skip_enter_frame=(fk == 'enter'))
        self._inner_invalid = False
        self._inner_silent = False
        aborted = False
        pre_cache = 'sssr' in mol.__dict__
        try:
            try:
                if lf is not None:
                    sys.settrace(lf.global_trace)
                    if fk == 'enter':
                        lf.armed = True
                with mol:
                    if lf is not None and fk == 'enter':
                        lf.armed = False
                    for k, inner in enumerate(body):
                        if fk == 'user' and k == fault.get('after', 0):
                            raise SimFault()
                        if lf is not None and fk == 'line':
                            lf.armed = True
                        try:
                            touched |= self._inner(hi, mol, txm, inner)
                        finally:
                            if lf is not None:
                                lf.armed = False
                    if fk == 'user' and fault.get('after', 0) >= len(body):
                        raise SimFault()
            finally:
                sys.settrace(None)
        except SimFault:
            aborted = True
            self.probes['tx_abort:' + fk] += 1
            if lf is not None and lf.where:
                self.probes['fault_in:' + lf.where[1]] += 1
                self.last_tx_where = lf.where
        except (Violation, Discard):
            raise
        except Exception as e:
            aborted = True
            if not self._inner_invalid:
                tb = traceback.extract_tb(e.__traceback__)[-1]
                raise Violation(f'unexpected-exception:tx:{type(e).__name__}', f'{e!r} at {tb.name}')
            self.probes['tx_abort:invalid'] += 1
        if lf is not None:
            self.last_tx_events = lf.count
        if aborted:
            if pre_cache:
                self.probes['tx_abort_with_ring_cache'] += 1
            try:
                check_primary(mol, model)
                if mol.name != model.name or dict(mol._meta or {}) != model.meta:
                    raise Violation('primary-mismatch', 'name/meta')
            except Violation as v:
                raise Violation('abort-not-restored', v.detail)
            self._after_abort = 3
            return hi, set()
        self.probes['tx_commit'] += 1
        if self._inner_silent:
            resync(model, mol)
            return hi, None
        h.model = txm
        kinds = {i['op'] for i in body}
        if kinds & {'set_charge', 'set_radical'} and kinds & {'add_atom', 'add_bond', 'del_atom', 'del_bond'}:
            self.probes['tx_commit_mixed'] += 1
        return hi, touched


def _overlapping_units(r):
    seen_units = {}
    for path in r.stereogenic_cumulenes:
        if len(path) % 2 == 0:
            for x in (path[0], path[-1], path[len(path) // 2], path[len(path) // 2 - 1]):
                if seen_units.setdefault(x, path) != path:
                    return True
    return False


def _components(model):
    seen, out = set(), []
    for n in sorted(model.atoms):
        if n in seen:
            continue
        comp = model.near([n], 10 ** 6)
        seen |= comp
        out.append(sorted(comp))
    return out


def _short(v, n=160):
    s = repr(v)
    return s if len(s) <= n else s[:n] + '...'


# =============================================================================================
# generation (lockstep with execution)

def draw_config(rng, tier):
    cfg = {
        'n_steps': rng.choice([2, 3, 4, 5, 6, 8, 10, 12]),
        'max_handles': rng.choice([1, 2, 2, 3, 4]),
        'sparse_p': rng.choice([0.0, 0.0, 0.3, 0.7, 1.0]),
        'obs_limit': rng.choice([0, 0, 0, 12, 25]),
        'tx_fault_p': rng.choice([0.0, 0.3, 0.5, 0.5, 0.8]),
        'line_fault_share': rng.choice([0.0, 0.3, 0.6, 1.0]),
        'opaque': False,
        'corpus_start': rng.random() < (0.2 if tier == 'thorough' else 0.06),
    }
    cfg['aromatic'] = (not cfg['corpus_start']) and rng.random() < 0.07
    cfg['joined_start'] = (not cfg['corpus_start']) and (not cfg['aromatic']) and rng.random() < 0.25
    if cfg['joined_start']:
        cfg['max_handles'] = max(2, cfg['max_handles'])
        cfg['max_atoms'] = 28
    if cfg['aromatic']:
        cfg['max_handles'] = max(2, cfg['max_handles'])
    if cfg['corpus_start']:
        cfg['obs_limit'] = 12          # bigger molecules: sample the observers
        cfg['max_atoms'] = 44
        cfg['max_handles'] = min(cfg['max_handles'], 2)
    cfg['rx'] = rng.random() < 0.12 or bool(os.environ.get('VERIF_C13_RX'))
    if cfg['rx']:
        cfg['n_steps'] = max(cfg['n_steps'], 5)
        cfg['obs_limit'] = cfg['obs_limit'] or 25
        cfg['rx_member_obs'] = rng.choice([6, 10, 16])
    w = dict(BASE_W)
    for k in list(w):
        r = rng.random()
        if r < 0.15 and k not in ('obs',):
            w[k] = 0
        elif r < 0.3:
            w[k] *= 3
    cfg['weights'] = w
    return cfg


def _rank(rng):
    return rng.randrange(0, 64)


def gen_inner(sim, rng, model):
    r = rng.random()
    if r < 0.12:
        return {'op': 'obs', 'names': [rng.randrange(len(GRAPH_ONLY)) for _ in range(rng.choice([1, 2, 4]))]}
    r = rng.random()
    if r < 0.08:
        return {'op': 'set_xy', 'a': _rank(rng), 'x': rng.randrange(-5, 6), 'y': rng.randrange(-5, 6), 'how': rng.randrange(3)}
    if r < 0.25:
        return {'op': 'set_charge', 'a': _rank(rng), 'v': rng.choice([-2, -1, -1, 0, 1, 1, 2])}
    if r < 0.40:
        return {'op': 'set_radical', 'a': _rank(rng), 'v': rng.random() < 0.6}
    if r < 0.55:
        return gen_add_atom(rng)
    if r < 0.72:
        return gen_add_bond(rng, model)
    if r < 0.82:
        return {'op': 'del_atom', 'a': _rank(rng)}
    if r < 0.92:
        return {'op': 'del_bond', 'a': _rank(rng), 'bi': rng.randrange(4)}
    if r < 0.96:
        return {'op': 'set_name', 'v': 'n%d' % rng.randrange(100)}
    return {'op': 'set_meta', 'k': 'k%d' % rng.randrange(3), 'v': 'v%d' % rng.randrange(100)}


def gen_add_atom(rng):
    op = {'op': 'add_atom', 'el': rng.choices(range(len(ELEMENTS)), ELEMENT_W)[0], 'form': rng.choice([0, 0, 1, 2, 2])}
    if op['form'] == 2:
        op['iso'] = rng.choice([0, 0, 0, 1, 2])
        op['ch'] = rng.choice([0, 0, 0, 0, 1, -1, 2, -2])
        op['rad'] = rng.random() < 0.12
    if rng.random() < 0.25:
        op['n'] = rng.randrange(1, 40)
    return op


def gen_add_bond(rng, model):
    op = {'op': 'add_bond', 'a': _rank(rng), 'b': _rank(rng), 'order': rng.choice([1, 1, 1, 1, 2, 2, 3, 8]),
          'obj': rng.random() < 0.3}
    atoms = sorted(model.atoms) if model is not None else []
    if len(atoms) >= 2:
        # bias towards a valid (non-bonded, distinct) pair
        for _ in range(6):
            a, b = rng.randrange(len(atoms)), rng.randrange(len(atoms))
            if a != b and atoms[b] not in model.bonds[atoms[a]]:
                op['a'], op['b'] = a, b
                break
    return op


def gen_op(sim, rng, frng, cfg):
    if not sim.handles:
        return {'op': 'new', 'seed': rng.randrange(len(SEEDS))}
    w = cfg['weights']
    if cfg.get('rx') and rng.random() < 0.65:
        def edit(model):
            r = rng.random()
            if r < 0.25:
                return dict(gen_add_atom(rng), c=0)
            if r < 0.5:
                return dict(gen_add_bond(rng, model), c=0)
            if r < 0.6:
                return {'op': 'del_atom', 'a': _rank(rng)}
            if r < 0.7:
                return {'op': 'del_bond', 'a': _rank(rng), 'bi': rng.randrange(4)}
            e = {'op': 'tx', 'body': [gen_inner(sim, rng, model) for _ in range(rng.choice([1, 2, 3]))]}
            if frng.random() < 0.4:
                e['fault'] = {'kind': 'user', 'after': frng.randrange(len(e['body']) + 1)}
            return e
        return gen_rx_op(sim, rng, frng, cfg, edit)
    kind = rng.choices(KINDS, [w[k] for k in KINDS])[0]
    if cfg.get('aromatic'):
        kind = rng.choice(AROMATIC_KINDS)
    hi = rng.randrange(len(sim.handles))
    fresh = getattr(sim, '_fresh_bias', None)
    if fresh is not None and fresh < len(sim.handles) and rng.random() < 0.7:
        hi = fresh      # (E) a freshly derived handle is edited first
        if kind in ('obs', 'copy', 'sub', 'drop', 'new', 'flush') and rng.random() < 0.8 and not cfg.get('aromatic'):
            kind = rng.choice(['add_atom', 'add_bond', 'del_atom', 'del_bond', 'tx'])
    sim._fresh_bias = None
    model = sim.handles[hi].model
    if model.aromatic and kind in EDIT_KINDS:
        kind = rng.choice(AROMATIC_KINDS)        # the handle is in its Thiele form (seed, or after thiele / canonicalize)
    elif cfg.get('aromatic') and not model.aromatic and rng.random() < 0.6:
        kind = rng.choices(KINDS, [w[k] for k in KINDS])[0]      # ... and back in a Kekule form after kekule(): edits again
    op = {'op': kind, 'h': hi}
    if kind == 'obs':
        op['names'] = [rng.randrange(len(OBSERVERS)) for _ in range(rng.choice([1, 1, 2, 3, 5, 8]))]
    elif kind == 'add_atom':
        op.update(gen_add_atom(rng))
    elif kind == 'set_xy':
        op.update(a=_rank(rng), x=rng.randrange(-5, 6), y=rng.randrange(-5, 6), how=rng.randrange(3))
    elif kind == 'set_meta':
        if rng.random() < 0.3:
            op['name'] = 'n%d' % rng.randrange(100)
        else:
            op.update(k='k%d' % rng.randrange(3), v='v%d' % rng.randrange(100))
    elif kind == 'add_bond':
        op.update(gen_add_bond(rng, model))
    elif kind == 'del_atom':
        op['a'] = _rank(rng)
    elif kind == 'del_bond':
        op['a'] = _rank(rng)
        op['bi'] = rng.randrange(4)
        atoms = sorted(model.atoms)
        bonded = [i for i, n in enumerate(atoms) if model.bonds[n]]
        if bonded:
            op['a'] = rng.choice(bonded)
    elif kind == 'remap':
        op['kind'] = rng.choice(['swap', 'swap', 'shift', 'one', 'perm', 'perm', 'partial'])
        op['a'], op['b'], op['k'] = _rank(rng), _rank(rng), rng.randrange(1, 60)
    elif kind == 'union':
        op['g'] = rng.randrange(len(sim.handles))
        op['mode'] = rng.choice(['or', 'or', 'ior', 'union', 'union_nr', 'union_nc'])
        if rng.random() < 0.4:
            op['shift'] = rng.randrange(1, 9)
    elif kind == 'copy':
        op['ks'] = rng.random() < 0.4
        op['kc'] = rng.random() < 0.4
        op['via'] = rng.randrange(3)
    elif kind == 'sub':
        op['mode'] = rng.choice(['substructure', 'substructure', 'and', 'minus', 'aug', 'split'])
        op['atoms'] = [_rank(rng) for _ in range(rng.choice([1, 2, 3, 4, 6, 9]))]
        op['deep'] = rng.randrange(2)
        op['k'] = rng.randrange(4)
    elif kind == 'flush':
        op['keep'] = rng.random() < 0.5
    elif kind == 'tx':
        op['body'] = [gen_inner(sim, rng, model) for _ in range(rng.choice([1, 1, 2, 2, 3, 4, 5]))]
        if frng.random() < cfg['tx_fault_p']:
            r = frng.random()
            if r < cfg['line_fault_share'] * 0.85:
                op['fault'] = {'kind': 'line', 'at': None}
            elif r < cfg['line_fault_share']:
                op['fault'] = {'kind': 'enter', 'at': None}
            elif frng.random() < 0.3:
                op['body'].insert(frng.randrange(len(op['body']) + 1), {'op': 'invalid', 'kind': frng.randrange(INVALID_KINDS)})
            else:
                n = len(op['body'])
                after = frng.choice(list(range(1, n + 1)) * 3 + [0])   # biased to k >= 1
                op['fault'] = {'kind': 'user', 'after': after}
    elif kind in ('add_atom_stereo', 'add_ct_stereo'):
        op['k'], op['mark'], op['p'] = rng.randrange(8), rng.random() < 0.5, rng.randrange(24)
    elif kind == 'invalid':
        op['kind'] = rng.randrange(INVALID_KINDS)
    elif kind == 'new':
        op['seed'] = rng.randrange(len(SEEDS))
    elif kind == 'opaque':
        op['name'] = rng.randrange(len(OPAQUE))
    op['c'] = rng.randrange(1 << 30)
    return op


# =============================================================================================
# running a history

def execute(ops, cfg, probes=None, count_only_faults=False):
    """Pure function of (ops, cfg, code).  Returns (violation dict | None, sim)."""
    sim = Sim(cfg, probes)
    step = -1
    try:
        for step, op in enumerate(ops):
            sim.apply(op)
    except Violation as v:
        return {'class': v.cls, 'detail': v.detail, 'step': step}, sim
    except Discard as d:
        sim.discarded = str(d)
        return None, sim
    finally:
        sys.settrace(None)
    return None, sim


def generate_and_run(seed, tier, probes):
    st = core.Streams(seed)
    cfg = draw_config(st.schedule, tier)
    sim = Sim(cfg, probes)
    ops = []
    pending_line = []
    viol = None
    try:
        n = cfg['n_steps']
        # first op: a seed molecule
        prelude = []
        if cfg.get('joined_start'):
            # synthesised start: two seed molecules merged in place and joined by one bond (ring systems linked directly or by a
            # chain, stereo centre next to a ring, ion pair bonded to a metal ...) - ordinary recorded steps, so they replay and shrink
            w = st.workload
            prelude = [{'op': 'new', 'seed': w.randrange(len(SEEDS)), 'c': w.randrange(1 << 30)},
                       {'op': 'new', 'seed': w.randrange(len(SEEDS)), 'c': w.randrange(1 << 30)},
                       {'op': 'union', 'h': 0, 'g': 1, 'mode': 'ior', 'shift': w.randrange(1, 4), 'c': w.randrange(1 << 30)},
                       {'op': 'drop', 'h': 1, 'c': 0},
                       {'op': 'add_bond', 'h': 0, 'a': w.randrange(0, 6), 'b': w.randrange(58, 64), 'order': w.choice([1, 1, 1, 2, 8]),
                        'c': w.randrange(1 << 30)}]
        for step in range(n + 1 + len(prelude)):
            if step < len(prelude):
                op = prelude[step]
            elif step == 0:
                op = {'op': 'new', 'seed': st.workload.randrange(len(SEEDS)), 'c': st.workload.randrange(1 << 30)}
                if cfg.get('corpus_start'):
                    op['corpus'] = st.workload.randrange(4200)
            else:
                op = gen_op(sim, st.workload, st.fault, cfg)
            ops.append(op)
            sim.apply(op)
            if op['op'] == 'tx' and op.get('fault') and op['fault']['kind'] in ('line', 'enter'):
                pending_line.append((len(ops) - 1, sim.last_tx_events or 0))
            if op['op'] in ('copy', 'sub', 'union') and getattr(sim, '_fresh', None) is None:
                pass
            if op['op'] in ('copy', 'sub') or (op['op'] == 'union' and op.get('mode') in ('or', 'union', 'union_nr')):
                sim._fresh_bias = len(sim.handles) - 1
    except Violation as v:
        viol = {'class': v.cls, 'detail': v.detail, 'step': len(ops) - 1}
    except Discard as d:
        sim.discarded = str(d)
    finally:
        sys.settrace(None)
    return cfg, ops, viol, sim, pending_line


def _sig_hash(sim):
    return hash(tuple(sim.sig)) & 0xffffffffffff


def run_one(i, tier, base):
    """One simulated run (plus its fault pass / crash-point sweep).  Returns a result dict."""
    seed = core.derive_seed(base, PROP, i)
    probes = Counter()
    out = {'runs': 1, 'steps': 0, 'checks': 0, 'sigs': set(), 'nontrivial': 0, 'discarded': 0, 'faults': Counter(),
           'violations': [], 'sample': None, 'line_events': 0, 'crash_points': 0}
    cfg, ops, viol, sim, pending = generate_and_run(seed, tier, probes)
    out['steps'] += sim.steps
    out['checks'] += sim.checks
    if getattr(sim, 'discarded', None):
        out['discarded'] += 1
        probes['discard:' + sim.discarded.split(':')[0]] += 1
    if viol:
        out['violations'].append({'seed': seed, 'index': i, 'config': cfg, 'ops': ops, 'violation': viol, 'pass': 1})
    elif sim.mut_then_obs:
        out['sigs'].add(_sig_hash(sim))
        out['nontrivial'] += 1
    # pass 2: now that the number of line events of each traced transaction is known, place the crash
    if not viol and pending and not getattr(sim, 'discarded', None):
        frng = random.Random(core.derive_seed(seed, 'line', 0))
        sweep = (i % (2 if tier == 'thorough' else 8) == 0)
        plans = []
        if sweep:
            idx, L = pending[frng.randrange(len(pending))]
            cap = 400 if tier == 'thorough' else 150
            if cfg.get('corpus_start'):
                cap = 80       # bigger molecules: each replay costs more, stay inside the soft time limit
            if 0 < L:
                js = list(range(1, L + 1)) if L <= cap else sorted(frng.sample(range(1, L + 1), cap))
                for j in js:
                    plans.append({idx: j})
                probes['sweeps'] += 1
        else:
            plan = {}
            for idx, L in pending:
                if L > 0:
                    plan[idx] = frng.randint(1, L)
            if plan:
                plans.append(plan)
        for plan in plans:
            ops2 = [dict(o) for o in ops]
            for idx, L in pending:
                f = dict(ops2[idx]['fault'])
                f['at'] = plan.get(idx, 0)   # 0: never fires (count only)
                ops2[idx]['fault'] = f
            p2 = Counter()
            v2, sim2 = execute(ops2, cfg, p2)
            out['steps'] += sim2.steps
            out['checks'] += sim2.checks
            out['crash_points'] += 1
            out['runs'] += 1
            for k, v in p2.items():
                if k.startswith('tx_abort') or k.startswith('fault_in'):
                    probes[k] += v
            if getattr(sim2, 'discarded', None):
                out['discarded'] += 1
            if v2:
                out['violations'].append({'seed': seed, 'index': i, 'config': cfg, 'ops': ops2, 'violation': v2, 'pass': 2})
                break
            out['sigs'].add(hash((_sig_hash(sim2), tuple(sorted(plan.items())))) & 0xffffffffffff)
            out['nontrivial'] += 1
        out['line_events'] += sum(L for _, L in pending)
    out['digest'] = core.digest([ops, viol, sim.digest, sim.steps, out['crash_points'], out['steps']])
    if i % 97 == 0:
        out['sample'] = {'seed': seed, 'config': {k: v for k, v in cfg.items() if k != 'weights'}, 'ops': ops}
    out['probes'] = probes
    return out


# =============================================================================================
# minimisation

def same_class(a, b):
    return a is not None and a['class'] == b['class']


def minimise(trace, budget_n=300):
    cfg = trace['config']
    target = trace['violation']
    budget = [budget_n]

    def test(ops):
        v, _ = execute(ops, cfg)
        return same_class(v, target)

    ops = list(trace['ops'][:target['step'] + 1])
    if not test(ops):
        return trace   # not reproducible in-process: leave as is, the confirm step will complain
    ops = core.ddmin(ops, test, budget)
    # shrink transaction bodies, drop faults, lower crash positions
    for idx in range(len(ops)):
        op = ops[idx]
        if op['op'] != 'tx':
            continue
        def with_op(new):
            return ops[:idx] + [new] + ops[idx + 1:]
        if op.get('fault'):
            cand = {k: v for k, v in op.items() if k != 'fault'}
            budget[0] -= 1
            if test(with_op(cand)):
                ops = with_op(cand)
                op = cand
        if len(op.get('body', [])) > 1:
            def tb(body, op=op):
                return test(with_op(dict(op, body=body)))
            body = core.ddmin(op['body'], tb, budget)
            op = dict(op, body=body)
            ops = with_op(op)
        f = op.get('fault')
        if f and f['kind'] in ('line', 'enter') and f.get('at'):
            lo = 1
            at = f['at']
            # earliest crash position that still fails (linear scan from 1 is affordable for small at)
            for j in range(lo, at):
                if budget[0] <= 0:
                    break
                budget[0] -= 1
                cand = dict(op, fault=dict(f, at=j))
                if test(with_op(cand)):
                    ops = with_op(cand)
                    break
    # simplify arguments
    for idx in range(len(ops)):
        for key, simple in (('c', 0), ('h', 0), ('a', 0), ('b', 1), ('bi', 0), ('obj', False), ('form', 0), ('el', 0),
                            ('ks', False), ('kc', False), ('via', 0), ('n', None), ('order', 1)):
            if budget[0] <= 0:
                break
            op = ops[idx]
            if key in op and op[key] != simple:
                cand = dict(op)
                cand[key] = simple
                budget[0] -= 1
                if test(ops[:idx] + [cand] + ops[idx + 1:]):
                    ops = ops[:idx] + [cand] + ops[idx + 1:]
    cfg2 = dict(cfg)
    cfg2['sparse_p'] = cfg.get('sparse_p', 0)
    v, _ = execute(ops, cfg)
    out = dict(trace)
    out['ops'] = ops
    out['violation'] = v
    out['minimised'] = True
    out['replays_used'] = budget_n - budget[0]
    return out


def op_kinds(trace):
    kinds = []
    for op in trace['ops']:
        k = op['op']
        if k == 'tx':
            f = op.get('fault')
            kinds.append('tx')
            kinds.append('tx:' + (f['kind'] if f else 'commit'))
            for inner in op.get('body', []):
                kinds.append('tx.' + inner['op'])
        elif k in ('union', 'sub', 'remap'):
            kinds.append(k)
            kinds.append(f"{k}:{op.get('mode') or op.get('kind')}")
        elif k == 'opaque':
            kinds.append('opaque:' + OPAQUE[op.get('name', 0) % len(OPAQUE)])
        elif k == 'invalid':
            kinds.append('invalid:%d' % (op.get('kind', 0) % INVALID_KINDS))
        elif k == 'rx_norm':
            kinds.append('rx_norm:' + RX_NORMALISERS[op.get('name', 0) % len(RX_NORMALISERS)][0])
        elif k == 'rx_edit':
            kinds.append('rx_edit:' + op['edit']['op'])
        else:
            kinds.append(k)
    return kinds


class _LayoutStub:
    """Stands in for the bundled JavaScript layout engine behind `clean2d()`: that engine gives different coordinates from
    call to call (measured: two calls in one process differ), which no seed controls.  The seam is the one call the library
    makes into it, `ctx.call('$.clean2d', smiles) -> [[x, y], ...]` in SMILES order; chython's own wrapper around it (atom
    order, scaling, component shifting, cache handling) runs for real."""

    @staticmethod
    def call(fn, smiles_string):
        return [[i * 0.7 + 0.13 * ((i * 7) % 5), ((i * 37) % 11) * 0.31 - ((i * i) % 3) * 0.17] for i in range(4 + len(smiles_string))]

    eval = staticmethod(lambda *a, **k: None)


def install_layout_stub():
    import chython.algorithms.calculate2d.molecule as c2
    if not isinstance(c2.ctx, _LayoutStub):
        c2.ctx = _LayoutStub()


def prewarm():
    """Touch process-global lazily built tables so that line-event counts do not depend on which run
    happened to be first in a process."""
    install_layout_stub()
    from chython import smiles
    from chython.periodictable import Element
    for cls in Element.__subclasses__():
        try:
            e = cls()
            e._compiled_valence_rules
            e._compiled_charge_radical
            e._compiled_saturation_rules
        except Exception:
            pass
    Element.from_atomic_number(6)
    for s in SEEDS[1:12]:
        m = smiles(s)
        for name, _ in OBSERVERS:
            try:
                observe(m, name)
            except Discard:
                pass
        with m:
            m.atom(1).charge = 0


# =============================================================================================
# driver

TIERS = {
    # runs, wall cap (s) for the exploration phase
    'quick': {'runs': 6000, 'wall': 45, 'chunk': 25},
    'thorough': {'runs': 400000, 'wall': 900, 'chunk': 50},
}


def _worker(i):
    tier, base = _worker.tier, _worker.base
    r = run_one(i, tier, base)
    if r['violations']:
        mins = []
        for t in r['violations'][:1]:
            try:
                mins.append(minimise(t))
            except Exception:
                t = dict(t)
                t['minimise_error'] = traceback.format_exc()
                mins.append(t)
        r['violations'] = mins
    return r


def replay_file(path, quiet=False):
    """Replay a trace in this (fresh) process.  Returns the violation dict or None."""
    with open(path) as f:
        trace = json.load(f)
    prewarm()
    cfg = trace['config']
    # warm-up pass without faults absorbs first-use initialisation, exactly as pass 1 does in a batch
    warm = []
    for o in trace['ops']:
        o = dict(o)
        if o['op'] == 'tx' and o.get('fault') and o['fault']['kind'] in ('line', 'enter'):
            o['fault'] = dict(o['fault'], at=0)
        warm.append(o)
    execute(warm, cfg)
    v, sim = execute(trace['ops'], cfg)
    if not quiet:
        print(json.dumps({'violation': v, 'steps': sim.steps}, indent=1))
    return v, trace


def main(argv):
    import argparse
    import subprocess
    ap = argparse.ArgumentParser()
    ap.add_argument('--tier', default=core.tier_from_env())
    ap.add_argument('--replay')
    ap.add_argument('--runs', type=int)
    ap.add_argument('--wall', type=float)
    ap.add_argument('--workers', type=int)
    ap.add_argument('--start', type=int, default=0)
    ap.add_argument('--no-confirm', action='store_true')
    ap.add_argument('--digest', nargs=2, type=int, metavar=('FROM', 'TO'))
    a = ap.parse_args(argv)

    if a.digest:
        prewarm()
        tier = a.tier if a.tier in TIERS else 'quick'
        out = {}
        for i in range(a.digest[0], a.digest[1]):
            out[i] = run_one(i, tier, core.base_seed())['digest']
        print('DIGESTS ' + json.dumps(out))
        return core.EXIT_OK

    if a.replay:
        v, trace = replay_file(a.replay)
        want = trace.get('violation')
        if v and (not want or v['class'] == want['class']):
            print(f'VIOLATION property={PROP} replay={a.replay}')
            return core.EXIT_VIOLATION
        print('replay: no violation' if not v else f"replay: different violation {v['class']}")
        return core.EXIT_OK if not v else core.EXIT_VIOLATION

    t0 = time.time()
    tier = a.tier if a.tier in TIERS else 'quick'
    T = dict(TIERS[tier])
    if a.runs:
        T['runs'] = a.runs
    if a.wall:
        T['wall'] = a.wall
    base = core.base_seed()
    print(f'[{PROP}] VERIF_SEED={base} tier={tier} runs<={T["runs"]} wall<={T["wall"]}s repo={env.REPO}', flush=True)
    prewarm()
    _worker.tier, _worker.base = tier, base

    agg = {'runs': 0, 'steps': 0, 'checks': 0, 'nontrivial': 0, 'discarded': 0, 'line_events': 0, 'crash_points': 0}
    sigs = set()
    probes = Counter()
    samples = []
    found = []

    def on_result(i, r):
        if 'harness_error' in r:
            return
        for k in agg:
            agg[k] += r[k]
        sigs.update(r['sigs'])
        probes.update(r['probes'])
        if r['sample'] and len(samples) < 5:
            samples.append(r['sample'])
        found.extend(r['violations'])

    # regression: traces of defects that were found and repaired must stay quiet (a fixed entry suppresses nothing)
    import glob
    for f in sorted(glob.glob(os.path.join(env.VERIF, 'replays', 'fixed', '*.json'))):
        with open(f) as fh:
            t = json.load(fh)
        if t.get('property', PROP) != PROP:
            continue
        v, sim_ = execute(t['ops'], t['config'])
        agg['runs'] += 1
        agg['steps'] += sim_.steps
        agg['checks'] += sim_.checks
        probes['regression_replays'] += 1
        if v:
            t = dict(t, violation=v)
            found.append(t)

    results, completed, errors = core.run_pool(_worker, range(a.start, a.start + T['runs']), workers=a.workers,
                                               chunk=T['chunk'], wall_cap=T['wall'], hang_s=300, on_result=on_result)
    explore_s = time.time() - t0
    slow = sorted(i for i, r in results.items() if 'slow_run' in r)
    if slow:
        print(f'[{PROP}] {len(slow)} run(s) set aside after the soft time limit ({core.SOFT_TIMEOUT_S}s): indices {slow[:8]}')
        probes['slow_runs_set_aside'] += len(slow)

    # group violations by signature
    known = core.load_known(PROP)
    groups = {}
    for t in found:
        v = t['violation']
        if v is None:
            continue
        key = (v['class'], tuple(sorted(set(op_kinds(t)))))
        if key not in groups or len(json.dumps(t['ops'])) < len(json.dumps(groups[key]['ops'])):
            groups[key] = t
    new_violations = []
    known_hits = {}
    for key, t in sorted(groups.items(), key=lambda kv: kv[0]):
        k = core.match_known(known, key[0], key[1], t['violation'].get('detail', ''))
        if k is not None:
            known_hits.setdefault(k['id'], (k, t))
        else:
            new_violations.append((key, t))

    exit_code = core.EXIT_OK
    reported = 0
    for key, t in new_violations[:12]:
        name = core.digest([key[0], key[1]])[:10]
        path = core.write_replay(PROP, name, t)
        ok = True
        if not a.no_confirm:
            p = subprocess.run([sys.executable, os.path.join(env.VERIF, 'check'), PROP, '--replay', path],
                               capture_output=True, text=True, env=env.child_env('0', os.environ.get('PYTHONPYCACHEPREFIX')),
                               timeout=600)
            ok = p.returncode == core.EXIT_VIOLATION and 'VIOLATION' in p.stdout
        if ok:
            print(f'VIOLATION property={PROP} replay={path}')
            print(f'  class={key[0]} ops={[o["op"] for o in t["ops"]]} detail={t["violation"]["detail"][:300]}')
            exit_code = core.EXIT_VIOLATION
            reported += 1
        else:
            print(f'HARNESS: violation {key[0]} did not reproduce in a fresh interpreter ({path})')
            errors.append((t.get('index', -1), 'replay did not reproduce'))
    for kid, (k, t) in sorted(known_hits.items()):
        print(f"KNOWN-FINDING: property={PROP} {k['id']}: {k['what']}")

    wall = time.time() - t0
    fault_counts = {k: v for k, v in probes.items() if k.startswith('tx_abort') or k.startswith('invalid_')}
    fault_sites = {k[9:]: v for k, v in probes.items() if k.startswith('fault_in:')}
    payload = {
        'property_id': PROP, 'tier': tier, 'seed': base, 'level': 'fault_enumeration', 'wall_s': round(wall, 2),
        'violations': reported,
        'coverage': {
            'evaluations': agg['runs'],
            'distinct_nontrivial': len(sigs),
            'rule': 'one evaluation = one simulated history (seeded op list over an arena of 1-4 live molecules, checked '
                    'after every step against the reference model and an independently rebuilt molecule) or one replay of '
                    'such a history with a crash injected at one enumerated source line of a transaction body. '
                    'Non-trivial = contains at least one mutation followed by a full observation round; distinct = distinct '
                    '(op kind, cache-key set present before the mutation, mode) sequences, crash position included.',
            'samples': samples[:3] or [{'note': 'no sample index hit in this run range'}],
            'steps': agg['steps'], 'handle_checks': agg['checks'], 'runs_discarded_out_of_domain': agg['discarded'],
            'runs_per_hour': int(agg['runs'] / max(explore_s, 1e-9) * 3600),
            'steps_per_hour': int(agg['steps'] / max(explore_s, 1e-9) * 3600),
            'run_indices': [a.start, a.start + T['runs']], 'completed_all_indices': completed,
            'fault_counts_fired': fault_counts,
            'crash_points_replayed': agg['crash_points'], 'line_events_in_traced_transactions': agg['line_events'],
            'line_fault_landing_functions': dict(sorted(fault_sites.items(), key=lambda kv: -kv[1])[:40]),
            'probes': {k: v for k, v in sorted(probes.items()) if not k.startswith('fault_in:')},
            'known_findings_hit': sorted(known_hits),
            'real_components': ['chython (working tree of /repo): containers, rings, morgan, stereo, smiles, isomorphism, '
                                'fingerprints', 'CachedMethods 0.2.0 except one method', 'CPython 3.12 sys.settrace'],
            'stub_components': ['CachedMethods.class_cached_property.__get__ (shim, DESIGN 2.1)',
                                'JavaScript layout engine behind clean2d() (fixed coordinates; chython\'s wrapper around it is real)',
                                'global random generator seeded per run'],
            'simulated_time': 'none - no clock or I/O is involved in this property',
        },
        'assumptions': [
            'Kekule structures only, <= 14 (+4 for unions) atoms, elements ' + ' '.join(ELEMENTS),
            'the rebuilt oracle object trusts calc_labels / calc_implicit / fix_stereo / ring perception on an empty cache',
            'runs in which ring perception raises ImplementationError (recorded cage gap) are discarded and counted',
        ],
    }
    if errors:
        payload['coverage']['harness_errors'] = [e[1][-400:] for e in errors[:5]]
    core.write_evidence(PROP, payload)
    print(f'[{PROP}] runs={agg["runs"]} steps={agg["steps"]} checks={agg["checks"]} distinct={len(sigs)} '
          f'discarded={agg["discarded"]} crash_points={agg["crash_points"]} wall={wall:.1f}s '
          f'violations={reported} known={len(known_hits)} harness_errors={len(errors)}', flush=True)
    zero = [p for p in ('tx_commit', 'tx_abort:user', 'union_collision', 'order8_added', 'remap') if not probes.get(p)]
    if zero:
        print(f'[{PROP}] WARNING probes at zero: {zero}')
    if errors and exit_code == core.EXIT_OK:
        for i, e in errors[:3]:
            print(f'HARNESS-ERROR run={i}\n{e}', file=sys.stderr)
        return core.EXIT_HARNESS
    return exit_code


def _digest_worker(i):
    r = run_one(i, getattr(_digest_worker, 'tier', 'quick'), core.base_seed())
    return {'digest': r['digest']}
