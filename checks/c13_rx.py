"""C13: reactions over the arena molecules (chython/containers/reaction.py is one of the property's anchors).

A reaction is built from copies of arena molecules.  Its in-place normalisers (canonicalize, standardize, thiele, kekule,
hydrogens, reagents, ions, mapping fixers ...) are *opaque* steps: after each one the reference model of every member is
re-read from the live member's primary state, and the oracle is the property's own one - every derived value of the live
reaction (signature strings in all formats, condensed graph, centre atoms, equality) and of every live member equals what an
independently rebuilt reaction with the same members reports.  Reads happen between the steps in seeded order, so that a
reaction-level or member-level memo that survives a normaliser is observable.  Copies of a reaction must be independent of it
(members, metadata), the arena molecules it was built from must never be touched, members edited through the public molecule
API followed by `reaction.flush_cache()` must give the rebuilt values as well.
"""
import random
import traceback
import zlib

from checks.c13_model import (Model, Violation, Discard, check_primary, rebuild, resync, stereo_of, OBSERVERS, OBS_INDEX, observe)

RX_NORMALISERS = [
    ('canonicalize', {}), ('canonicalize', {'fix_mapping': False}), ('canonicalize', {'fix_tautomers': False}),
    ('standardize', {}), ('standardize', {'fix_mapping': False}), ('thiele', {}), ('thiele', {'fix_tautomers': False}),
    ('kekule', {}), ('clean_isotopes', {}), ('clean_stereo', {}), ('implicify_hydrogens', {}), ('explicify_hydrogens', {}),
    ('remove_reagents', {}), ('remove_reagents', {'keep_reagents': True}), ('remove_reagents', {'mapping': False}),
    ('remove_reagents', {'mapping': False, 'keep_reagents': True}), ('contract_ions', {}), ('fix_mapping', {}),
    ('fix_groups_mapping', {}), ('fix_positions', {}), ('flush_cache', {}), ('flush_cache', {'keep_molecule_cache': True}),
    ('check_valence', {}),
]


def _exc(f):
    try:
        return f()
    except Exception as e:
        return ('EXC', type(e).__name__)


def _cgr(r):
    c = r.compose()
    return (sorted((min(n, m), max(n, m), b.order, b.p_order) for n, m, b in c.bonds()),
            [(n, a.atomic_number, a.isotope, a.charge, a.p_charge, a.is_radical, a.p_is_radical) for n, a in c.atoms()],
            list(c.center_atoms))


RX_OBSERVERS = [
    ('str', lambda r: str(r)),
    ('fmt_m', lambda r: format(r, 'm')),
    ('fmt_h', lambda r: format(r, 'h')),
    ('fmt_ns', lambda r: format(r, '!s')),
    ('fmt_A', lambda r: format(r, 'A')),
    ('fmt_c', lambda r: format(r, '!c')),
    ('fmt_nx', lambda r: format(r, '!x')),
    ('cgr', _cgr),
    ('cgr_again', _cgr),
    ('invert', lambda r: [(n, a.atomic_number) for n, a in (~r).atoms()]),
    ('members', lambda r: [[str(m) for m in r.reactants], [str(m) for m in r.reagents], [str(m) for m in r.products]]),
    ('member_order', lambda r: [list(m.smiles_atoms_order) for m in r.molecules()]),
    ('bool_len', lambda r: (bool(r), len(r))),
    ('valence', lambda r: r.check_valence()),
    ('self_eq', lambda r: (r == r, r == r.copy(), hash(r) == hash(r.copy()))),
]
RX_OBS_INDEX = {k: i for i, (k, _) in enumerate(RX_OBSERVERS)}
RX_OBS = dict(RX_OBSERVERS)
MAX_RX = 2


class Rx:
    __slots__ = ('live', 'models', 'name', 'meta')

    def __init__(self, live, models, name=None, meta=None):
        self.live = live
        self.models = models    # {'reactants': [Model...], 'reagents': [...], 'products': [...]}
        self.name = name
        self.meta = dict(meta or {})


ROLES = ('reactants', 'reagents', 'products')


def _resync_rx(rx):
    for role in ROLES:
        out = []
        for m in getattr(rx.live, role):
            mod = Model()
            resync(mod, m)
            mod.aromatic = any(b.order == 4 for *_, b in m.bonds())
            out.append(mod)
        rx.models[role] = out
    rx.name = rx.live._name
    rx.meta = dict(rx.live._meta or {})


class RxMixin:
    """Mixed into checks.c13.Sim (uses self.handles, self.probes, self.cfg, self.digest, self.checks)."""

    def _rx(self, op):
        if not self.rxs:
            return None
        return op.get('r', 0) % len(self.rxs)

    # ------------------------------------------------------------------ oracle
    def check_rx(self, ri, rng, where=''):
        from chython.containers import ReactionContainer
        from chython.exceptions import ImplementationError
        from checks.c13 import _overlapping_units
        rx = self.rxs[ri]
        live = rx.live
        self.checks += 1
        rebuilt = {}
        for role in ROLES:
            mols = getattr(live, role)
            models = rx.models[role]
            if len(mols) != len(models):
                raise Violation('rx-primary-mismatch', f'{role}: {len(mols)} members, model has {len(models)}')
            out = []
            for k, (mol, model) in enumerate(zip(mols, models)):
                try:
                    check_primary(mol, model)
                except Violation as v:
                    raise Violation('rx-' + v.cls, f'{role}[{k}] {v.detail}')
                if getattr(mol, '_backup', None) is not None:
                    raise Violation('transaction-left-open', f'{role}[{k}] snapshot still held')
                ast, bst = stereo_of(mol)
                try:
                    r = rebuild(mol, model, ast, bst)
                except ImplementationError as e:
                    raise Discard(f'ImplementationError in rebuild: {e}')
                if _overlapping_units(r):
                    raise Discard('overlapping stereogenic double-bond units')
                rast, rbst = stereo_of(r)
                if ast != rast or bst != rbst:
                    da = {n: (ast.get(n), rast.get(n)) for n in set(ast) | set(rast) if ast.get(n) != rast.get(n)}
                    db = {q: (bst.get(q), rbst.get(q)) for q in set(bst) | set(rbst) if bst.get(q) != rbst.get(q)}
                    raise Violation('rx-member-mismatch:stereo', f'{where} {role}[{k}] (mol, rebuilt) atoms {da} bonds {db}')
                names = [q for q, _ in OBSERVERS]
                rng.shuffle(names)
                bad = []
                for name in names[:self.cfg.get('rx_member_obs', 10)]:
                    v1 = observe(mol, name)
                    v2 = observe(r, name)
                    if name != 'hash':
                        self.digest = zlib.crc32(repr((name, v1)).encode(), self.digest)
                    if v1 != v2:
                        bad.append((OBS_INDEX[name], name, v1, v2))
                if bad:
                    _, name, v1, v2 = min(bad)
                    raise Violation(f'rx-member-mismatch:{name}', f'{where} {role}[{k}] mol={str(v1)[:160]} rebuilt={str(v2)[:160]}')
                out.append(r)
            rebuilt[role] = out
        if live._name != rx.name:
            raise Violation('rx-primary-mismatch', f'name {live._name!r} != {rx.name!r}')
        if dict(live._meta or {}) != rx.meta:
            raise Violation('rx-primary-mismatch', f'meta {live._meta!r} != {rx.meta!r}')
        if rebuilt['reactants'] or rebuilt['products'] or rebuilt['reagents']:
            ref = ReactionContainer(rebuilt['reactants'], rebuilt['products'], rebuilt['reagents'], meta=rx.meta or None, name=rx.name)
        else:
            self.probes['rx_empty'] += 1     # everything removed by a normaliser: the constructor refuses, nothing to read
            return
        names = [q for q, _ in RX_OBSERVERS]
        rng.shuffle(names)
        bad = []
        for name in names:
            f = RX_OBS[name]
            v1 = _exc(lambda: f(live))
            v2 = _exc(lambda: f(ref))
            self.digest = zlib.crc32(repr((name, v1)).encode(), self.digest)
            if v1 != v2:
                bad.append((RX_OBS_INDEX[name], name, v1, v2))
        if bad:
            _, name, v1, v2 = min(bad)
            raise Violation(f'rx-derived-mismatch:{name}', f'{where} live={str(v1)[:200]} rebuilt={str(v2)[:200]} '
                                                           f'(also: {[b[1] for b in sorted(bad)][1:6]})')
        eq = _exc(lambda: live == ref)
        if eq is not True and not (isinstance(eq, tuple) and isinstance(_exc(lambda: str(ref)), tuple)):
            raise Violation('rx-derived-mismatch:eq', f'{where} live != rebuilt ({eq})')
        self.probes['rx_checks'] += 1

    def check_rxs(self, acting, c, where=''):
        rng = random.Random(c)
        order = list(range(len(self.rxs)))
        if acting is not None and acting in order:
            order.remove(acting)
            order.insert(0, acting)
        for ri in order:
            try:
                self.check_rx(ri, rng, where)
            except Violation as v:
                if ri != acting and acting is not None:
                    raise Violation(f'cross-reaction-interference:{v.cls}', f'reaction {ri} (acting {acting}) {v.detail}')
                raise
        # the arena molecules the reactions were built from must never be touched
        try:
            self.check_all(None, set(), c ^ 0x5a5a, where)
        except Violation as v:
            raise Violation(f'cross-handle-interference:{v.cls}', f'after {where}: {v.detail}')

    # ------------------------------------------------------------------ steps
    def op_rx_new(self, op):
        from chython.containers import ReactionContainer
        if len(self.rxs) >= MAX_RX or not self.handles:
            return None
        pick = {}
        for role, key in (('reactants', 'rs'), ('products', 'ps'), ('reagents', 'gs')):
            pick[role] = [k % len(self.handles) for k in op.get(key, [])]
            pick[role] = [k for k in pick[role] if self.handles[k].model.atoms]
        if not pick['reactants'] and not pick['products'] and not pick['reagents']:
            return None
        mols = {role: [self.handles[k].mol.copy() for k in ks] for role, ks in pick.items()}
        models = {role: [self.handles[k].model.copy() for k in ks] for role, ks in pick.items()}
        for ms in models.values():
            for m in ms:
                m.name, m.meta = m.name, dict(m.meta)
        if op.get('disjoint'):
            # members of one side get disjoint atom numbers (twice the same molecule on one side is a mapping error for the
            # mapping-based normalisers); the other side keeps the numbers, so that atoms correspond across the arrow
            for side in (mols['reactants'] + mols['reagents'], mols['products']):
                used = set()
                for m in side:
                    if used & set(m):
                        shift = max(used) + 1 - min(m)
                        m.remap({n: n + shift for n in list(m)})
                    used |= set(m)
        meta = {'k': 'v'} if op.get('meta') else None
        live = ReactionContainer(mols['reactants'], mols['products'], mols['reagents'], meta=meta, name=op.get('name'))
        rx = Rx(live, models, op.get('name'), meta)
        _resync_rx(rx)     # copies keep labels/hydrogens as they are; the model is what the live members hold
        self.rxs.append(rx)
        self.probes['rx_new'] += 1
        return ('rx', len(self.rxs) - 1)

    def op_rx_obs(self, op):
        ri = self._rx(op)
        if ri is None:
            return None
        live = self.rxs[ri].live
        for k in op.get('names', []):
            name, f = RX_OBSERVERS[k % len(RX_OBSERVERS)]
            _exc(lambda: f(live))
        for k in op.get('mnames', []):
            mols = list(live.molecules())
            if mols:
                observe(mols[k % len(mols)], OBSERVERS[(k // 7) % len(OBSERVERS)][0])
        self.probes['rx_obs'] += 1
        return ('rx', ri)

    def op_rx_norm(self, op):
        ri = self._rx(op)
        if ri is None:
            return None
        rx = self.rxs[ri]
        name, kw = RX_NORMALISERS[op.get('name', 0) % len(RX_NORMALISERS)]
        if op.get('log') and name in ('canonicalize', 'standardize', 'fix_mapping', 'fix_groups_mapping'):
            kw = dict(kw, logging=True)
        try:
            getattr(rx.live, name)(**kw)
        except Exception as e:
            # C13 says nothing about which reactions a normaliser accepts (members are edited independently here: valence
            # errors, one atom number with two elements, and - on this tree - every path that needs str(CGR) raise).  What it
            # does say is checked below: whatever the call did or did not do, the reaction must read like its members.
            self.probes['rx_norm_raised:%s:%s' % (name, type(e).__name__)] += 1
        self.probes['rx_norm:' + name] += 1
        _resync_rx(rx)
        return ('rx', ri)

    def op_rx_copy(self, op):
        ri = self._rx(op)
        if ri is None:
            return None
        rx = self.rxs[ri]
        if op.get('touch'):
            rx.live.meta              # reading creates the (possibly empty) dictionary before the copy is taken
        c = rx.live.copy()
        new = Rx(c, {role: [m.copy() for m in ms] for role, ms in rx.models.items()}, rx.name, rx.meta)
        if op.get('then_set'):
            c.meta['copied'] = 'yes'  # the copy's metadata is its own from the first moment
            new.meta['copied'] = 'yes'
        if len(self.rxs) >= MAX_RX:
            # replace the other slot (or the source itself when there is only one slot): the copy lives on
            self.rxs[(ri + 1) % len(self.rxs) if len(self.rxs) > 1 else ri] = new
        else:
            self.rxs.append(new)
        self.probes['rx_copy'] += 1
        return ('rx', self.rxs.index(new))

    def op_rx_meta(self, op):
        ri = self._rx(op)
        if ri is None:
            return None
        rx = self.rxs[ri]
        if op.get('name') is not None:
            rx.live.name = op['name']
            rx.name = op['name']
        elif op.get('mode') == 'touch':
            rx.live.meta               # reading creates the (empty) dictionary
        elif op.get('mode') == 'clear':
            rx.live.meta.clear()
            rx.meta.clear()
        else:
            rx.live.meta[op['k']] = op['v']
            rx.meta[op['k']] = op['v']
        return ('rx', ri)

    def op_rx_drop(self, op):
        ri = self._rx(op)
        if ri is None:
            return None
        self.rxs.pop(ri)
        return ('rx', None)

    def op_rx_edit(self, op):
        """A member is edited through the public molecule API (same step code as for arena molecules, transactions with
        faults included); the caller then flushes the reaction's own memo."""
        from checks.c13 import Handle
        ri = self._rx(op)
        if ri is None:
            return None
        rx = self.rxs[ri]
        members = [(role, k) for role in ROLES for k in range(len(rx.models[role]))]
        if not members:
            return None
        role, k = members[op.get('m', 0) % len(members)]
        model = rx.models[role][k]
        if model.aromatic:
            return None      # hydrogens of aromatic forms cannot be recomputed by the model (derive-only)
        mol = getattr(rx.live, role)[k]
        inner = dict(op['edit'])
        self.handles.append(Handle(mol, model, 'rx-member'))
        inner['h'] = len(self.handles) - 1
        try:
            res = getattr(self, 'op_' + inner['op'])(inner)
        finally:
            rx.models[role][k] = self.handles.pop().model     # a transaction step installs a new model object
        if res is None:
            return None
        # stereo labels the edit may have invalidated are re-read: the member check uses the live labels
        if op.get('keep'):
            rx.live.flush_cache(keep_molecule_cache=True)
        else:
            rx.live.flush_cache()
        self.probes['rx_edit:' + inner['op']] += 1
        return ('rx', ri)


def gen_rx_op(sim, rng, frng, cfg, gen_inner_edit):
    """gen_inner_edit(model) -> a molecule edit step (add_atom / add_bond / del_atom / del_bond / tx)."""
    if not sim.rxs:
        kind = 'rx_new'
    else:
        kind = rng.choices(['rx_norm', 'rx_obs', 'rx_copy', 'rx_edit', 'rx_meta', 'rx_new', 'rx_drop'], [10, 5, 3, 4, 2.5, 1, 0.5])[0]
    op = {'op': kind, 'r': rng.randrange(4), 'c': rng.randrange(1 << 30)}
    if kind == 'rx_new':
        nh = max(1, len(sim.handles))
        op['rs'] = [rng.randrange(nh) for _ in range(rng.choice([1, 1, 2, 2, 3]))]
        op['ps'] = [rng.randrange(nh) for _ in range(rng.choice([1, 1, 2, 2, 0]))]
        op['gs'] = [rng.randrange(nh) for _ in range(rng.choice([0, 0, 1, 2]))]
        op['meta'] = rng.random() < 0.3
        op['disjoint'] = rng.random() < 0.7
        if rng.random() < 0.3:
            op['name'] = 'rx%d' % rng.randrange(10)
    elif kind == 'rx_copy':
        op['touch'] = rng.random() < 0.5
        op['then_set'] = rng.random() < 0.5
    elif kind == 'rx_norm':
        op['name'] = rng.randrange(len(RX_NORMALISERS))
        op['log'] = rng.random() < 0.3
    elif kind == 'rx_obs':
        op['names'] = [rng.randrange(len(RX_OBSERVERS)) for _ in range(rng.choice([1, 2, 3, 6]))]
        op['mnames'] = [rng.randrange(1 << 16) for _ in range(rng.choice([0, 1, 3]))]
    elif kind == 'rx_meta':
        r = rng.random()
        if r < 0.25:
            op['name'] = 'rx%d' % rng.randrange(10)
        elif r < 0.45:
            op['mode'] = 'touch'
        elif r < 0.55:
            op['mode'] = 'clear'
        else:
            op['k'], op['v'] = 'k%d' % rng.randrange(3), 'v%d' % rng.randrange(50)
    elif kind == 'rx_edit':
        op['m'] = rng.randrange(16)
        op['keep'] = rng.random() < 0.5
        rx = sim.rxs[op['r'] % len(sim.rxs)]
        members = [(role, k) for role in ROLES for k in range(len(rx.models[role]))]
        model = rx.models[members[op['m'] % len(members)][0]][members[op['m'] % len(members)][1]] if members else Model()
        op['edit'] = gen_inner_edit(model)
    return op
