"""C13: reference model, independent rebuild and observers (DESIGN.md section 5.2)."""
from collections import deque

from simkit.core import HarnessError


class Violation(Exception):
    def __init__(self, cls, detail=''):
        super().__init__(f'{cls}: {detail}')
        self.cls = cls
        self.detail = detail


class Discard(Exception):
    """Run left the domain in which the oracle is exact (counted, not a result)."""


class Model:
    """Primary state of one molecule as the documented meaning of the edits predicts it."""
    __slots__ = ('atoms', 'bonds', 'name', 'meta', 'astereo', 'bstereo', 'xy', 'hyd', 'aromatic')

    def __init__(self):
        self.atoms = {}    # n -> (Z, isotope, charge, radical)
        self.bonds = {}    # n -> {m: order}
        self.name = ''
        self.meta = {}
        self.astereo = {}  # n -> bool            (raw labels as last verified)
        self.bstereo = {}  # (min, max) -> bool
        self.xy = {}       # n -> (x, y)   2D coordinates are part of the primary state
        self.hyd = {}      # n -> implicit hydrogens; primary state only in aromatic (derive-only) mode, where they
        self.aromatic = False   # cannot be recomputed (calc_implicit gives None for aromatic heteroatoms by design)

    def copy(self):
        c = Model()
        c.atoms = dict(self.atoms)
        c.bonds = {n: dict(ms) for n, ms in self.bonds.items()}
        c.name = self.name
        c.meta = dict(self.meta)
        c.astereo = dict(self.astereo)
        c.bstereo = dict(self.bstereo)
        c.xy = dict(self.xy)
        c.hyd = dict(self.hyd)
        c.aromatic = self.aromatic
        return c

    # ---- documented semantics of the edits
    def add_atom(self, n, spec, xy=(0., 0.)):
        self.atoms[n] = spec
        self.bonds[n] = {}
        self.xy[n] = xy

    def add_bond(self, n, m, order):
        self.bonds[n][m] = order
        self.bonds[m][n] = order

    def delete_atom(self, n):
        del self.atoms[n]
        for m in self.bonds.pop(n):
            del self.bonds[m][n]
            self.bstereo.pop((min(n, m), max(n, m)), None)
        self.astereo.pop(n, None)
        self.xy.pop(n, None)

    def delete_bond(self, n, m):
        del self.bonds[n][m]
        del self.bonds[m][n]
        self.bstereo.pop((min(n, m), max(n, m)), None)

    def remap(self, mapping):
        g = mapping.get
        self.atoms = {g(n, n): a for n, a in self.atoms.items()}
        self.bonds = {g(n, n): {g(m, m): o for m, o in ms.items()} for n, ms in self.bonds.items()}
        self.astereo = {g(n, n): s for n, s in self.astereo.items()}
        self.xy = {g(n, n): v for n, v in self.xy.items()}
        self.hyd = {g(n, n): v for n, v in self.hyd.items()}
        self.bstereo = {(min(g(n, n), g(m, m)), max(g(n, n), g(m, m))): s for (n, m), s in self.bstereo.items()}

    def induced(self, atoms):
        atoms = set(atoms)
        c = Model()
        c.atoms = {n: a for n, a in self.atoms.items() if n in atoms}
        c.bonds = {n: {m: o for m, o in ms.items() if m in atoms} for n, ms in self.bonds.items() if n in atoms}
        c.astereo = {n: s for n, s in self.astereo.items() if n in atoms}
        c.xy = {n: v for n, v in self.xy.items() if n in atoms}
        c.hyd = {n: v for n, v in self.hyd.items() if n in atoms}
        c.aromatic = self.aromatic
        c.bstereo = {k: s for k, s in self.bstereo.items() if k[0] in atoms and k[1] in atoms}
        return c

    def merge(self, other):
        self.atoms.update(other.atoms)
        for n, ms in other.bonds.items():
            self.bonds[n] = dict(ms)
        self.astereo.update(other.astereo)
        self.bstereo.update(other.bstereo)
        self.xy.update(other.xy)
        self.hyd.update(other.hyd)
        self.aromatic = self.aromatic or other.aromatic

    def near(self, sources, dist):
        seen = set(x for x in sources if x in self.bonds)
        q = deque((x, 0) for x in seen)
        while q:
            n, d = q.popleft()
            if d == dist:
                continue
            for m in self.bonds[n]:
                if m not in seen:
                    seen.add(m)
                    q.append((m, d + 1))
        return seen


def primary_of(mol):
    atoms = {}
    for n, a in mol._atoms.items():
        atoms[n] = (a.atomic_number, a.isotope, a.charge, a.is_radical)
    bonds = {n: {m: b.order for m, b in ms.items()} for n, ms in mol._bonds.items()}
    return atoms, bonds


def stereo_of(mol):
    ast = {n: a._stereo for n, a in mol._atoms.items() if a._stereo is not None}
    bst = {}
    for n, ms in mol._bonds.items():
        for m, b in ms.items():
            if n < m and b._stereo is not None:
                bst[(n, m)] = b._stereo
    return ast, bst


def xy_of(mol):
    return {n: (a.x, a.y) for n, a in mol._atoms.items()}


def resync(model, mol):
    model.atoms, model.bonds = primary_of(mol)
    model.xy = xy_of(mol)
    model.hyd = {n: a._implicit_hydrogens for n, a in mol._atoms.items()}
    model.astereo, model.bstereo = stereo_of(mol)
    model.name = mol.name
    model.meta = dict(mol.meta) if mol._meta else {}


def check_primary(mol, model):
    atoms, bonds = primary_of(mol)
    if atoms != model.atoms:
        diff = {n: (atoms.get(n), model.atoms.get(n)) for n in set(atoms) | set(model.atoms)
                if atoms.get(n) != model.atoms.get(n)}
        raise Violation('primary-mismatch', f'atoms (mol, model): {diff}')
    if set(mol._bonds) != set(mol._atoms):
        raise Violation('primary-mismatch', f'_bonds keys {sorted(mol._bonds)} != _atoms keys {sorted(mol._atoms)}')
    for n, ms in mol._bonds.items():
        for m, b in ms.items():
            back = mol._bonds.get(m, {}).get(n)
            if back is None:
                raise Violation('asymmetric-adjacency', f'{n}-{m} has no back reference')
            if back is not b:
                raise Violation('asymmetric-adjacency', f'{n}-{m} different Bond objects in the two directions')
    if bonds != model.bonds:
        diff = {n: (bonds.get(n), model.bonds.get(n)) for n in set(bonds) | set(model.bonds)
                if bonds.get(n) != model.bonds.get(n)}
        raise Violation('primary-mismatch', f'bonds (mol, model): {diff}')
    xy = xy_of(mol)
    if xy != model.xy:
        diff = {n: (xy.get(n), model.xy.get(n)) for n in set(xy) | set(model.xy) if xy.get(n) != model.xy.get(n)}
        raise Violation('primary-mismatch:xy', f'coordinates (mol, model): {diff}')


def rebuild(mol, model, astereo, bstereo):
    """Fresh molecule from the model's content, in the molecule's own iteration orders, filled directly
    (not through the mutators under test) and labelled from an empty cache."""
    from chython.containers import MoleculeContainer
    from chython.containers.bonds import Bond
    from chython.periodictable import Element

    r = MoleculeContainer()
    r._name = model.name or None
    r._meta = dict(model.meta) if model.meta else None
    ra, rb = r._atoms, r._bonds
    for n in mol._atoms:
        z, iso, ch, rad = model.atoms[n]
        x, y = model.xy.get(n, (0., 0.))
        ra[n] = Element.from_atomic_number(z)(iso, charge=ch, is_radical=rad, x=x, y=y)
        rb[n] = {}
    for n, ms in mol._bonds.items():
        rbn = rb[n]
        for m in ms:
            if n in rb[m]:
                rbn[m] = rb[m][n]
            else:
                rbn[m] = Bond(model.bonds[n][m])
    r.flush_cache()
    r.calc_labels()
    if model.aromatic:
        for n, a in ra.items():
            if any(b.order == 4 for b in rb[n].values()):
                a._implicit_hydrogens = model.hyd.get(n)   # carried, not recomputable for atoms of aromatic rings
            else:
                r.calc_implicit(n)
    else:
        for n in ra:
            r.calc_implicit(n)
    r.flush_cache()
    # Labels are attached through the public labelling calls, one at a time, retried until no further label is
    # accepted (the way the file readers do it).  This path does not go through fix_stereo(), which is one of the
    # routines under test; a label that is not accepted because its centre is not (yet) stereogenic stays off.
    from chython.exceptions import NotChiral, IsChiral
    pending = [('a', n, s) for n, s in astereo.items()] + [('b', k, s) for k, s in bstereo.items()]
    while pending:
        rest = []
        for kind, key, s in pending:
            try:
                if kind == 'a':
                    if key in r.stereogenic_tetrahedrons:
                        r.add_atom_stereo(key, r.stereogenic_tetrahedrons[key], s)
                    elif key in r.stereogenic_allenes:
                        e = r.stereogenic_allenes[key]
                        r.add_atom_stereo(key, (e[0], e[1]), s)
                    else:
                        continue   # not a stereogenic centre any more: label cannot be carried
                else:
                    n, m = key
                    t = r._stereo_cis_trans_terminals.get(n)
                    if t is None or t != r._stereo_cis_trans_terminals.get(m) or \
                            set(r._stereo_cis_trans_centers[t[0]]) != {n, m}:
                        continue   # not the central bond of a stereogenic double-bond unit
                    e = r.stereogenic_cis_trans[t]
                    r.add_cis_trans_stereo(t[0], t[1], e[0], e[1], s)
            except NotChiral:
                rest.append((kind, key, s))
            except IsChiral:
                pass
        if len(rest) == len(pending):
            break
        pending = rest
    r.flush_cache()
    return r


def rebuild_other_order(model):
    """A second twin filled in *another* storage order (atoms by descending number, each neighbour dictionary by descending
    number): anything that is a function of the graph - not of the order in which atoms and bonds happened to be inserted -
    must come out the same.  No labels are attached; only order-free values are compared with it (`order_free`)."""
    from chython.containers import MoleculeContainer
    from chython.containers.bonds import Bond
    from chython.periodictable import Element

    r = MoleculeContainer()
    ra, rb = r._atoms, r._bonds
    for n in sorted(model.atoms, reverse=True):
        z, iso, ch, rad = model.atoms[n]
        ra[n] = Element.from_atomic_number(z)(iso, charge=ch, is_radical=rad)
        rb[n] = {}
    for n in sorted(model.atoms, reverse=True):
        for m in sorted(model.bonds[n], reverse=True):
            rb[n][m] = rb[m][n] if n in rb[m] else Bond(model.bonds[n][m])
    r.flush_cache()
    r.calc_labels()
    for n, a in ra.items():
        if model.aromatic and any(b.order == 4 for b in rb[n].values()):
            a._implicit_hydrogens = model.hyd.get(n)
        else:
            r.calc_implicit(n)
    r.flush_cache()
    return r


def order_free(m):
    """Values that depend on the graph only (no tie between equal alternatives is decided by storage order)."""
    fns = {'atoms': lambda: sorted((n, a.implicit_hydrogens, a.explicit_hydrogens, a.neighbors, a.heteroatoms, a.hybridization, a.in_ring)
                                   for n, a in m.atoms()),
           # ring membership of a real bond is a property of the graph (every cycle edge is in some ring of any basis); for an
           # order-8 bond, which the ring graph leaves out, the mark says "both ends share a ring of the chosen basis" - a tie
           'bonds': lambda: sorted((min(n, k), max(n, k), b.order, bool(b.in_ring) if b.order != 8 else None) for n, k, b in m.bonds()),
           'rings_count': lambda: m.rings_count, 'ring_sizes': lambda: sorted(len(r) for r in m.sssr),
           # (not the ring sets themselves: which of several equally small rings is chosen follows the storage order on the
           # unchanged tree already - measured, 8 of 23 000 runs - and is treated as a legitimate tie, DESIGN 5.4)
           'components': lambda: sorted(tuple(sorted(c)) for c in m.connected_components),
           'brutto': lambda: _sd(m.brutto), 'charge': lambda: m.molecular_charge, 'radical': lambda: m.is_radical,
           'mass': lambda: round(m.molecular_mass, 6), 'valence': lambda: sorted(m.check_valence())}
    out = {}
    for k, f in fns.items():
        try:
            out[k] = f()
        except Exception as e:
            from chython.exceptions import ImplementationError
            if isinstance(e, ImplementationError):
                raise Discard(f'ImplementationError in order_free {k}: {e}')
            out[k] = ('EXC', type(e).__name__)
    return out


# ---------------------------------------------------------------------------------------------
# observers: name -> function(mol) -> plain comparable value

def _sd(d):
    return sorted(d.items())


def _ss(d):
    return sorted((k, sorted(v)) for k, v in d.items())


import re as _re
_UUID = _re.compile(r'[0-9a-f]{8}-[0-9a-f]{4}-[0-9a-f]{4}-[0-9a-f]{4}-[0-9a-f]{12}')


def _canon(x):
    if isinstance(x, dict):
        return sorted((repr(k), _canon(v)) for k, v in x.items())
    if isinstance(x, (set, frozenset)):
        return sorted(_canon(v) for v in x)
    if isinstance(x, (list, tuple)):
        return [_canon(v) for v in x]
    return x if isinstance(x, (int, str, bool, float)) or x is None else repr(x)


def _atom_labels(m):
    out = []
    for n, a in m._atoms.items():
        out.append((n, a._implicit_hydrogens, getattr(a, '_explicit_hydrogens', 'UNSET'),
                    getattr(a, '_neighbors', 'UNSET'), getattr(a, '_heteroatoms', 'UNSET'),
                    getattr(a, '_hybridization', 'UNSET'),
                    sorted(getattr(a, '_ring_sizes', None) or ()) if hasattr(a, '_ring_sizes') else 'UNSET',
                    getattr(a, '_in_ring', 'UNSET'), a._stereo))
    return out


def _atom_labels_public(m):
    return [(n, a.implicit_hydrogens, a.explicit_hydrogens, a.neighbors, a.heteroatoms, a.hybridization,
             sorted(a.ring_sizes), a.in_ring, a.stereo) for n, a in m.atoms()]


def _bond_labels(m):
    return [(n, k, b.order, bool(b.in_ring), b.stereo) for n, k, b in m.bonds()]


def _self_match(m):
    if len(m) > 9 or m.connected_components_count > 2:
        return -1   # bounded: the pure-Python matcher is exponential on many symmetric fragments
    c = 0
    for _ in m.get_mapping(m, automorphism_filter=False):
        c += 1
        if c >= 50:
            break
    return c


def _automorphisms(m):
    if len(m) > 10:
        return -1   # bounded: enumeration explodes on many identical fragments
    out = []
    for x in m.get_automorphism_mapping():
        out.append(sorted(x.items()))
        if len(out) >= 6:
            break
    return out


OBSERVERS = [
    ('str', lambda m: str(m)),
    ('fmt_h', lambda m: format(m, 'h')),
    ('fmt_m', lambda m: format(m, 'm')),
    ('fmt_A', lambda m: format(m, 'A')),
    ('fmt_a', lambda m: format(m, 'a')),
    ('fmt_ns', lambda m: format(m, '!s')),
    ('fmt_nx', lambda m: format(m, '!x!z')),
    ('atoms_order', lambda m: _sd(m.atoms_order)),
    ('chiral_morgan', lambda m: _sd(m._chiral_morgan)),
    ('smiles_atoms_order', lambda m: tuple(m.smiles_atoms_order)),
    ('sssr', lambda m: [tuple(r) for r in m.sssr]),
    ('rings_count', lambda m: m.rings_count),
    ('atoms_rings', lambda m: sorted((n, [tuple(r) for r in rs]) for n, rs in m.atoms_rings.items())),
    ('atoms_rings_sizes', lambda m: _ss(m.atoms_rings_sizes)),
    ('not_special_connectivity', lambda m: _ss(m.not_special_connectivity)),
    ('connected_components', lambda m: sorted(sorted(c) for c in m.connected_components)),
    ('connected_components_count', lambda m: m.connected_components_count),
    ('skin_graph', lambda m: _ss(m.skin_graph)),
    ('rings_graph', lambda m: _ss(m.rings_graph)),
    ('aromatic_rings', lambda m: [tuple(r) for r in m.aromatic_rings]),
    ('bonds_count', lambda m: m.bonds_count),
    ('brutto', lambda m: _sd(m.brutto)),
    ('molecular_charge', lambda m: m.molecular_charge),
    ('is_radical', lambda m: m.is_radical),
    ('molecular_mass', lambda m: round(m.molecular_mass, 6)),
    ('tetrahedrons', lambda m: tuple(m.tetrahedrons)),
    ('cumulenes', lambda m: [tuple(c) for c in m.cumulenes]),
    ('stereogenic_tetrahedrons', lambda m: _sd(m.stereogenic_tetrahedrons)),
    ('stereogenic_cumulenes', lambda m: _sd(m.stereogenic_cumulenes)),
    ('stereogenic_allenes', lambda m: _sd(m.stereogenic_allenes)),
    ('stereogenic_cis_trans', lambda m: _sd(m.stereogenic_cis_trans)),
    ('ring_tetrahedrons', lambda m: sorted((n, sorted(v)) for n, v in m.ring_tetrahedrons.items())),
    ('chiral_tetrahedrons', lambda m: sorted(m.chiral_tetrahedrons)),
    ('chiral_cis_trans', lambda m: sorted(m.chiral_cis_trans)),
    ('chiral_allenes', lambda m: sorted(m.chiral_allenes)),
    ('int_adjacency', lambda m: sorted((n, sorted(ms.items())) for n, ms in m.int_adjacency.items())),
    ('adjacency_matrix', lambda m: m.adjacency_matrix().tolist()),
    ('adjacency_matrix_b', lambda m: m.adjacency_matrix(True).tolist()),
    ('check_valence', lambda m: list(m.check_valence())),
    ('linear_hash_set', lambda m: sorted(m.linear_hash_set(1, 4))),
    ('morgan_hash_set', lambda m: sorted(m.morgan_hash_set(1, 3))),
    ('compiled_structure', lambda m: m._cython_compiled_structure),
    ('self_match', _self_match),
    ('automorphisms', _automorphisms),
    ('atom_labels', _atom_labels_public),
    ('bond_labels', _bond_labels),
    ('hash', lambda m: hash(m)),
    ('len', lambda m: (len(m), m.atoms_count, list(m), bool(m))),
    ('xy', lambda m: [(n, a.x, a.y, tuple(a.xy)) for n, a in m.atoms()]),
    ('meta', lambda m: (m.name, sorted(m.meta.items()))),     # reading .meta creates the lazy dict
    ('environment', lambda m: [(n, tuple(m.environment(n, include_bond=False, include_atom=False))) for n in m]),
    # appended later (indices of the entries above are recorded in replay files): the rarely read derived values
    ('rings_linker_tetrahedrons', lambda m: _canon(m.rings_linker_tetrahedrons)),
    ('ring_cumulenes_terminals', lambda m: _canon(m.ring_cumulenes_terminals)),
    ('rings_linker_cumulenes_terminals', lambda m: _canon(m.rings_linker_cumulenes_terminals)),
    ('ring_attached_cumulenes', lambda m: _canon(m.ring_attached_cumulenes)),
    ('stereo_tables', lambda m: [_canon(getattr(m, k)) for k in ('_stereo_cis_trans_centers', '_stereo_cis_trans_terminals',
                                                                 '_stereo_cis_trans_counterpart', '_stereo_allenes_terminals',
                                                                 '_stereo_allenes_centers', '_cis_trans_count')]),
    ('wedge_map', lambda m: sorted(m._wedge_map)),
    ('contains', lambda m: [s in m for s in ('C', 'N', 'O', 'H', 'Cl', 'Na', 'Fe')]),
    ('fast_mapping', lambda m: _canon(m.get_fast_mapping(m.copy()))),
    ('fingerprints', lambda m: [sorted(m.linear_bit_set(1, 4)), sorted(m.morgan_bit_set(1, 3)),
                                m.linear_fingerprint(1, 4).tolist(), m.morgan_fingerprint(1, 3).tolist()]),
    ('hydrogens_total', lambda m: [(n, a.total_hydrogens, round(a.atomic_mass, 6), hash(a)) for n, a in m.atoms()]),
    ('depict', lambda m: _UUID.sub('ID', m.depict(clean2d=False))),      # element ids are uuid4 values: the one random part, masked
    ('hash_smiles', lambda m: [_canon(m.linear_hash_smiles(1, 2)), _canon(m.morgan_hash_smiles(1, 1))]),
]
OBS_INDEX = {k: i for i, (k, _) in enumerate(OBSERVERS)}
# pure functions of the graph alone: may be read (and must be right) inside an open transaction, where atom labels are
# deliberately not recalculated
GRAPH_ONLY = ['sssr', 'rings_count', 'atoms_rings', 'atoms_rings_sizes', 'not_special_connectivity',
              'connected_components', 'connected_components_count', 'skin_graph', 'rings_graph', 'bonds_count',
              'adjacency_matrix', 'adjacency_matrix_b', 'int_adjacency', 'len', 'environment', 'cumulenes']


def observe(mol, name):
    """Value or ('EXC', type name).  ImplementationError (SSSR cage gap, C06's recorded limit) leaves the domain."""
    from chython.exceptions import ImplementationError
    fn = OBSERVERS[OBS_INDEX[name]][1]
    try:
        return fn(mol)
    except ImplementationError as e:
        raise Discard(f'ImplementationError in {name}: {e}')
    except RecursionError:
        raise
    except Exception as e:
        return ('EXC', type(e).__name__)
