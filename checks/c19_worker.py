"""C19 worker: one execution = one fresh interpreter that processes a job file (configuration + event list) and
writes one digest per observation.  Started by checks/c19.py with PYTHONHASHSEED / setarch / PYTHONPATH set by the
controller; nothing here draws from a PRNG."""
import gc
import hashlib
import json
import sys


SMARTS_PANEL = ['[C;D3]', 'C=O', 'c1ccccc1', '[N;h2]', 'CO', 'C(=O)O', '[#6]-[#7]', 'c:n', 'C=C', 'C#N', '[O;D1]', 'S(=O)=O',
                'CCN', 'c-c', '[N+]', '[O-]', 'C1CC1', 'N-C=O', 'Cl', 'F', '[C;r5]', 'C~C~C', 'cc(c)N', '[N;D3]', 'CS',
                '[N;a;h1]', 'C(C)(C)C', '[#8]=[#6]-[#8]', 'Br', 'P',
                '[#6,#7]-[#8]', '[C,N;D2]', '[#8,#16]=[#6]', '[#7,#8;h1]', '[#6]-[#6,#7]-[#6]', '[F,Cl,Br]',
                '[A]C[A]N', '[A]1CN1', '[C,N]CO', '[A]CCO', '[A]~[#6]~[#7]', '[O,S]C(N)=O', '[A]c1ccccc1', '[C,O]CN.[A]Cl']
_panel = {}


def canon(x):
    import numpy as np
    if isinstance(x, (set, frozenset)):
        return ['S'] + sorted(canon(v) for v in x)
    if isinstance(x, dict):
        return ['D'] + sorted(([canon(k), canon(v)] for k, v in x.items()), key=repr)
    if isinstance(x, (list, tuple)):
        return ['L'] + [canon(v) for v in x]
    if isinstance(x, np.ndarray):
        return ['A', hashlib.sha1(x.tobytes()).hexdigest(), list(x.shape)]
    if isinstance(x, bytes):
        return ['B', hashlib.sha1(x).hexdigest()]
    if isinstance(x, (int, str, bool)) or x is None:
        return x
    return repr(x)


def digest(x):
    return hashlib.sha1(json.dumps(canon(x), sort_keys=False, default=repr).encode()).hexdigest()[:20]


def _query(k):
    from chython import smarts
    if k not in _panel:
        _panel[k] = smarts(SMARTS_PANEL[k])
    return _panel[k]


def _mappings(q, m, af):
    out = []
    for x in q.get_mapping(m, automorphism_filter=af):
        out.append(sorted(x.items()))
        if len(out) >= 40:
            break
    return out


def _sub_query(m):
    atoms = list(m)
    if len(atoms) < 3:
        return None
    core = atoms[len(atoms) // 3]
    sub = m.augmented_substructure([core], deep=2)
    return sub


def _taut(m):
    out = []
    for t in m.copy().enumerate_tautomers(limit=6):
        out.append(str(t))
        if len(out) >= 5:
            break
    return out


def _live_gen(m, method, k, **kw):
    """Read-only enumerators called on the live object itself (not on a copy), consumed up to item k and then dropped."""
    out = []
    for t in getattr(m, method)(**kw):
        out.append(str(t))
        if len(out) >= k:
            break
    return out


def _prim(m):
    return ([(n, a.atomic_number, a.isotope, a.charge, a.is_radical, a.implicit_hydrogens) for n, a in m.atoms()],
            sorted((min(n, k), max(n, k), b.order) for n, k, b in m.bonds()))


def _kek_enum(m):
    out = []
    for k in m.copy().enumerate_kekule():
        out.append(format(k, 'A'))
        if len(out) >= 6:
            break
    return out


def _warm(c):
    """Populate the memo cache of a copy before it is normalised: the result must not depend on it."""
    for f in (str, lambda x: x.atoms_order, lambda x: x.sssr, lambda x: format(x, 'h'), lambda x: x.connected_components,
              lambda x: x.chiral_tetrahedrons, lambda x: x.molecular_charge, lambda x: x.brutto):
        try:
            f(c)
        except Exception:
            pass


def _on_copy(m, method, warm=False, **kw):
    c = m.copy()
    if warm:
        _warm(c)
    r = getattr(c, method)(**kw)
    rr = r if isinstance(r, (bool, int)) else (len(r) if hasattr(r, '__len__') else None)
    return [rr, str(c), format(c, 'A'), format(c, 'h'), [(n, a.charge, a.is_radical, a.implicit_hydrogens) for n, a in c.atoms()],
            sorted((min(n, k), max(n, k), b.order) for n, k, b in c.bonds())]


OBSERVERS = {
    'str': lambda m: str(m),
    'fmt_h': lambda m: format(m, 'h'),
    'fmt_A': lambda m: format(m, 'A'),
    'fmt_m': lambda m: format(m, 'm'),
    'fmt_a': lambda m: format(m, 'a'),
    'fmt_ns': lambda m: format(m, '!s'),
    'fmt_nsh': lambda m: format(m, '!sh'),
    'fmt_nsm': lambda m: format(m, '!sm'),
    'fmt_nb': lambda m: format(m, '!b'),
    'fmt_nz': lambda m: format(m, '!z'),
    'fmt_nx': lambda m: format(m, '!x'),
    'fmt_Ahm': lambda m: format(m, 'Ahm'),
    'atoms_order': lambda m: sorted(m.atoms_order.items()),
    'chiral_morgan': lambda m: sorted(m._chiral_morgan.items()),
    'smiles_atoms_order': lambda m: list(m.smiles_atoms_order),
    'sssr': lambda m: [list(r) for r in m.sssr],
    'atoms_rings_sizes': lambda m: sorted((n, sorted(s)) for n, s in m.atoms_rings_sizes.items()),
    'connected_components': lambda m: [sorted(c) for c in m.connected_components],
    'linear_hash_set': lambda m: sorted(m.linear_hash_set()),
    'linear_fingerprint': lambda m: m.linear_fingerprint(),
    'morgan_hash_set': lambda m: sorted(m.morgan_hash_set()),
    'morgan_fingerprint': lambda m: m.morgan_fingerprint(),
    'morgan_hash_smiles': lambda m: sorted(m.morgan_hash_smiles(1, 3).items()),
    'morgan_smiles_hash': lambda m: sorted(m.morgan_smiles_hash(1, 3).items()),
    'linear_hash_smiles': lambda m: sorted(m.linear_hash_smiles(1, 3).items()),
    'linear_smiles_hash': lambda m: sorted(m.linear_smiles_hash(1, 3).items()),
    'stereo_sets': lambda m: [sorted(m.chiral_tetrahedrons), sorted(m.chiral_cis_trans), sorted(m.chiral_allenes)],
    'labels': lambda m: [(n, a.implicit_hydrogens, a.hybridization, sorted(a.ring_sizes), a.stereo) for n, a in m.atoms()],
    # the object the input path (SMILES / MDL / MRV parser) built: numbering, storage and neighbour order, per-atom state, bond labels
    'layout': lambda m: [[(n, a.atomic_number, a.isotope, a.charge, a.is_radical, a.implicit_hydrogens, round(a.x, 4), round(a.y, 4),
                           list(m._bonds[n])) for n, a in m.atoms()],
                         [(n, k, b.order, b.stereo, bool(b.in_ring)) for n, k, b in m.bonds()], m.name],
    'mass': lambda m: [round(m.molecular_mass, 8), sorted(m.brutto.items()), m.molecular_charge, m.is_radical,
                       [(n, round(a.atomic_mass, 8), a.isotope) for n, a in m.atoms()]],
    'automorphism': lambda m: [sorted(x.items()) for _, x in zip(range(5), m.get_automorphism_mapping())],
    'self_sub': lambda m: (lambda q: None if q is None else [sorted(x.items()) for _, x in zip(range(20), q.get_mapping(m))])(_sub_query(m)),
    'self_sub_all': lambda m: (lambda q: None if q is None else [sorted(x.items()) for _, x in zip(range(20), q.get_mapping(m, automorphism_filter=False))])(_sub_query(m)),
    'canonicalize': lambda m, warm=False: _on_copy(m, 'canonicalize', warm),
    'standardize': lambda m, warm=False: _on_copy(m, 'standardize', warm),
    'neutralize': lambda m, warm=False: _on_copy(m, 'neutralize', warm),
    'kekule': lambda m, warm=False: _on_copy(m, 'kekule', warm),
    'thiele': lambda m, warm=False: _on_copy(m, 'thiele', warm),
    'clean_stereo': lambda m, warm=False: _on_copy(m, 'clean_stereo', warm),
    'clean_isotopes': lambda m, warm=False: _on_copy(m, 'clean_isotopes', warm),
    'implicify_hydrogens': lambda m, warm=False: _on_copy(m, 'implicify_hydrogens', warm),
    'explicify_hydrogens': lambda m, warm=False: _on_copy(m, 'explicify_hydrogens', warm),
    'enumerate_kekule': _kek_enum,
    'enumerate_tautomers': _taut,
}
for _k in range(len(SMARTS_PANEL)):
    OBSERVERS['smarts%d' % _k] = (lambda k: lambda m: _mappings(_query(k), m, True))(_k)
    OBSERVERS['smarts%d_all' % _k] = (lambda k: lambda m: _mappings(_query(k), m, False))(_k)


# ---- queries as inputs: a QueryContainer is an input of the property like a molecule (its string, its copy, the match lists
# it yields - first use and with the memoised search plan, whichever target the plan was first compiled against)
QUERY_TARGETS = ['OC1CCNC1.CCl', 'CC(=O)Oc1ccccc1C(O)=O', 'NC(Cc1ccccc1)C(O)=O', 'C[C@H](N)C(=O)O', 'C/C=C/C(=O)N', 'c1ccc2[nH]ccc2c1',
                 'CC(C)(C)C(=O)Cl', 'O=S(=O)(N)c1ccc(F)cc1', '[NH3+]CC([O-])=O', 'C1CC1C#N', 'BrCCBr', 'CP(C)C', 'OCC1OC(O)C(O)C(O)C1O',
                 'ClC(Cl)Cl.CCN(CC)CC', 'C[CH]C', 'C=CC=O']
_targets = {}


def _target(k):
    from chython import smiles
    if k not in _targets:
        _targets[k] = smiles(QUERY_TARGETS[k])
    return _targets[k]


def _q_atoms(q):
    out = []
    for n, a in q.atoms():
        out.append([n, type(a).__name__] + [repr(getattr(a, k, 'n/a')) for k in
                   ('atomic_symbol', 'charge', 'is_radical', 'neighbors', 'hybridization', 'ring_sizes', 'implicit_hydrogens',
                    'heteroatoms', 'masked', 'stereo', 'isotope')])
    return out


def _q_match(q, af, tseed):
    import random
    order = list(range(len(QUERY_TARGETS)))
    random.Random(tseed).shuffle(order)       # which target the search plan meets first is part of the schedule
    out = {}
    for k in order:
        out[QUERY_TARGETS[k]] = _mappings(q, _target(k), af)
    return out


_TSEED = [0]
QRY_OBSERVERS = {
    'q_str': lambda q: str(q),
    'q_repr': lambda q: repr(q),
    'q_atoms': _q_atoms,
    'q_bonds': lambda q: sorted((min(n, m), max(n, m), repr(b.order), repr(getattr(b, 'in_ring', None)), repr(getattr(b, 'stereo', None)))
                                for n, m, b in q.bonds()),
    'q_len': lambda q: [len(q), q.atoms_count, q.bonds_count, list(q)],
    'q_match': lambda q: _q_match(q, True, _TSEED[0]),
    'q_match_all': lambda q: _q_match(q, False, _TSEED[0] + 1),
    'q_match_fresh_copy': lambda q: _q_match(q.copy(), True, _TSEED[0] + 2),
    'q_is_sub': lambda q: {QUERY_TARGETS[k]: [q <= _target(k), q < _target(k)] for k in range(len(QUERY_TARGETS))},
    'q_copy_str': lambda q: [str(q.copy()), _q_atoms(q.copy())],
    'q_union': lambda q: (lambda u: [str(u), _q_atoms(u)])(q | q.copy().__class__()) if False else None,
}
QRY_OBSERVERS.pop('q_union')


def _rxn_on_copy(r, method, warm=False):
    c = r.copy()
    if warm:
        for f in (str, hash, lambda x: format(x, 'm'), lambda x: x.compose()):
            try:
                f(c)
            except Exception:
                pass
        for m in c.molecules():
            _warm(m)
    res = getattr(c, method)()
    return [res if isinstance(res, (bool, int)) else None, str(c), format(c, 'm'), format(c, '!c')]


RXN_OBSERVERS = {
    'rxn_str': lambda r: str(r),
    'rxn_fmt_m': lambda r: format(r, 'm'),
    'rxn_fmt_h': lambda r: format(r, 'h'),
    'rxn_fmt_ns': lambda r: format(r, '!s'),
    'rxn_fmt_A': lambda r: format(r, 'A'),
    'rxn_cgr': lambda r: sorted((min(n, m), max(n, m), b.order, b.p_order) for n, m, b in r.compose().bonds()),
    'rxn_cgr_order': lambda r: [(n, a.atomic_number, a.charge, a.p_charge) for n, a in r.compose().atoms()],
    'rxn_centers': lambda r: list(r.compose().center_atoms),
    'rxn_canonicalize': lambda r, warm=False: _rxn_on_copy(r, 'canonicalize', warm),
    'rxn_standardize': lambda r, warm=False: _rxn_on_copy(r, 'standardize', warm),
    'rxn_kekule': lambda r, warm=False: _rxn_on_copy(r, 'kekule', warm),
    'rxn_thiele': lambda r, warm=False: _rxn_on_copy(r, 'thiele', warm),
    'rxn_clean_stereo': lambda r, warm=False: _rxn_on_copy(r, 'clean_stereo', warm),
    'rxn_clean_isotopes': lambda r, warm=False: _rxn_on_copy(r, 'clean_isotopes', warm),
    'rxn_implicify_hydrogens': lambda r, warm=False: _rxn_on_copy(r, 'implicify_hydrogens', warm),
    'rxn_explicify_hydrogens': lambda r, warm=False: _rxn_on_copy(r, 'explicify_hydrogens', warm),
    'rxn_members': lambda r: [[str(m) for m in r.reactants], [str(m) for m in r.reagents], [str(m) for m in r.products]],
    'rxn_member_orders': lambda r: [list(m.smiles_atoms_order) for m in r.molecules()],
    'rxn_member_atoms_order': lambda r: [sorted(m.atoms_order.items()) for m in r.molecules()],
    'rxn_member_mapping': lambda r: [sorted((m.get_fast_mapping(m.copy()) or {}).items()) for m in r.molecules()],
    'rxn_hash_eq': lambda r: [r == r.copy(), hash(r) == hash(r.copy())],
}
OBSERVERS.update(RXN_OBSERVERS)


def _log_on_copy(x, method, warm=False):
    c = x.copy()
    if warm:
        if hasattr(c, 'molecules'):
            for m in c.molecules():
                _warm(m)
            str(c)
        else:
            _warm(c)
    return [getattr(c, method)(logging=True), str(c)]


def _charged_forms(m):
    out = []
    for t in m.copy().enumerate_charged_forms(limit=20):
        out.append(str(t))
        if len(out) >= 6:
            break
    return out


def _mcs(m):
    if len(m) > 25:
        return None
    other = m.copy()
    atoms = list(other)
    if len(atoms) > 3:
        other.delete_atom(atoms[len(atoms) // 2])
    out = []
    for x in m.get_mcs_mapping(other, limit=2000):
        out.append(sorted(x.items()))
        if len(out) >= 3:
            break
    return out


def _scoped_sub(m):
    q = _sub_query(m)
    if q is None:
        return None
    atoms = list(m)
    scope = set(atoms[:max(3, 2 * len(atoms) // 3)])
    return [sorted(x.items()) for _, x in zip(range(20), q.get_mapping(m, searching_scope=scope))]


OBSERVERS['scoped_sub'] = _scoped_sub
OBSERVERS['enumerate_charged_forms'] = _charged_forms
OBSERVERS['taut_live_np1'] = lambda m: _live_gen(m, 'enumerate_tautomers', 1, prepare_molecules=False)
OBSERVERS['taut_live_np2'] = lambda m: _live_gen(m, 'enumerate_tautomers', 2, prepare_molecules=False)
OBSERVERS['taut_live_np6'] = lambda m: _live_gen(m, 'enumerate_tautomers', 6, prepare_molecules=False, limit=8)
OBSERVERS['taut_live_p2'] = lambda m: _live_gen(m, 'enumerate_tautomers', 2)
OBSERVERS['charged_live2'] = lambda m: _live_gen(m, 'enumerate_charged_forms', 2)
OBSERVERS['mcs'] = _mcs
OBSERVERS['split'] = lambda m: [str(x) for x in m.split()]
for _name, _meth in (('remove_metals_log', 'remove_metals'), ('remove_acids_log', 'remove_acids'),
                     ('split_metal_salts_log', 'split_metal_salts')):
    OBSERVERS[_name] = (lambda meth: lambda m, warm=False: _log_on_copy_late(m, meth, warm))(_meth)
def _rxn_keep_reagents(r, warm=False, mapping=True):
    c = r.copy()
    if warm:
        str(c)
    res = c.remove_reagents(keep_reagents=True, mapping=mapping)
    return [res, [str(m) for m in c.reactants], [str(m) for m in c.reagents], [str(m) for m in c.products], format(c, 'm')]


OBSERVERS['rxn_keep_reagents'] = _rxn_keep_reagents
OBSERVERS['rxn_keep_reagents_rules'] = lambda r, warm=False: _rxn_keep_reagents(r, warm, False)
for _name, _meth in (('rxn_remove_reagents', 'remove_reagents'), ('rxn_contract_ions', 'contract_ions'),
                     ('rxn_fix_mapping', 'fix_mapping'), ('rxn_fix_groups_mapping', 'fix_groups_mapping')):
    OBSERVERS[_name] = (lambda meth: lambda r, warm=False: _rxn_on_copy(r, meth, warm))(_meth)


def _log_on_copy_late(x, method, warm=False):
    return _log_on_copy(x, method, warm)


for _name, _meth in (('canonicalize_log', 'canonicalize'), ('standardize_log', 'standardize'), ('neutralize_log', 'neutralize'),
                     ('standardize_charges_log', 'standardize_charges'), ('fix_resonance_log', 'fix_resonance'),
                     ('implicify_hydrogens_log', 'implicify_hydrogens')):
    OBSERVERS[_name] = (lambda meth: lambda m, warm=False: _log_on_copy(m, meth, warm))(_meth)
for _name, _meth in (('rxn_canonicalize_log', 'canonicalize'), ('rxn_standardize_log', 'standardize')):
    OBSERVERS[_name] = (lambda meth: lambda m, warm=False: _log_on_copy(m, meth, warm))(_meth)

WARMABLE = {'rxn_keep_reagents', 'rxn_keep_reagents_rules', 'remove_metals_log', 'remove_acids_log', 'split_metal_salts_log', 'rxn_remove_reagents', 'rxn_contract_ions',
            'rxn_fix_mapping', 'rxn_fix_groups_mapping', 'canonicalize_log', 'standardize_log', 'neutralize_log', 'standardize_charges_log', 'fix_resonance_log',
            'implicify_hydrogens_log', 'rxn_canonicalize_log', 'rxn_standardize_log','canonicalize', 'standardize', 'neutralize', 'kekule', 'thiele', 'clean_stereo', 'clean_isotopes',
            'implicify_hydrogens', 'explicify_hydrogens', 'rxn_canonicalize', 'rxn_standardize', 'rxn_kekule', 'rxn_thiele',
            'rxn_clean_stereo', 'rxn_clean_isotopes', 'rxn_implicify_hydrogens', 'rxn_explicify_hydrogens'}


def load(src):
    from chython import smiles
    if src[0] == 'smi' or src[0] == 'rxnsmi':
        return smiles(src[1])
    if src[0] == 'smarts':
        from chython import smarts
        return smarts(src[1])
    if src[0] == 'rxnfile':
        import os
        from chython import RDFRead
        with RDFRead(os.path.join(os.environ['VERIF_REPO'], 'test', src[1])) as r:
            for k, rec in enumerate(r):
                if k == src[2]:
                    return rec
        raise ValueError('record not found')
    if src[0] == 'file':
        import os
        from chython import SDFRead, RDFRead, MRVRead
        from chython.containers import ReactionContainer
        path = os.path.join(os.environ['VERIF_REPO'], 'test', src[1])
        R = SDFRead if src[1].endswith('.sdf') else RDFRead if src[1].endswith('.rdf') else MRVRead
        with R(path) as r:
            k = -1
            for rec in r:
                mols = list(rec.molecules()) if isinstance(rec, ReactionContainer) else [rec]
                for m in mols:
                    k += 1
                    if k == src[2]:
                        return m
        raise ValueError('record not found')
    if src[0] == 'norm':
        # a molecule that went through an in-place normaliser (or a chain of them) before it is observed and copied
        m = smiles(src[1])
        for meth in src[2].split('+'):
            getattr(m, meth)()
        return m
    if src[0] == 'derived':
        # objects derived from a molecule: substructure, augmented substructure, union, split part, remapped copy
        m = smiles(src[1])
        atoms = list(m)
        how = src[2]
        if how == 'sub':
            return m.substructure(atoms[:max(1, len(atoms) * 2 // 3)])
        if how == 'aug':
            return m.augmented_substructure([atoms[len(atoms) // 2]], deep=2)
        if how == 'union':
            return m | smiles('CC(=O)[O-].[Na+]')
        if how == 'split':
            return m.split()[-1]
        if how == 'remap':
            return m.remap({n: n + 7 for n in atoms}, copy=True)
        if how == 'keep':
            str(m); m.sssr
            return m.copy(keep_sssr=True, keep_components=True)
        raise ValueError(src)
    if src[0] == 'edit':
        # molecule whose dictionaries went through deletions and re-insertions (same keys, other internal layout)
        m = smiles(src[1])
        atoms = list(m)
        n = atoms[src[2] % len(atoms)]
        a = m.atom(n).copy()
        nb = [(k, b.order) for k, b in m._bonds[n].items()]
        m.delete_atom(n)
        m.add_atom(a, n)
        for k, o in nb:
            m.add_bond(n, k, o)
        return m
    raise ValueError(src)


def main():
    job = json.load(open(sys.argv[1]))
    cfg = job['config']
    junk = [object() for _ in range(cfg.get('junk', 0))]      # shifts heap layout / id() values
    if cfg.get('gc') == 'off':
        gc.disable()
    elif cfg.get('gc') == 'low':
        gc.set_threshold(5, 2, 2)
    corpus = job['corpus']
    _TSEED[0] = int(cfg.get('tseed', 0))
    live, copies = {}, {}
    primed = {}
    out = []
    for ev in job['events']:
        k = ev[0]
        try:
            if k == 'load':
                live[ev[1]] = load(corpus[ev[1]])
            elif k == 'obs' or k == 'obs_copy':
                tbl = live if k == 'obs' else copies
                m = tbl.get(ev[1])
                if m is None:
                    continue
                before = None
                if ev[1] not in primed and hasattr(m, 'enumerate_tautomers'):
                    primed[ev[1]] = True
                    out.append([ev[1], '_input_unchanged', ev[3], 'ok'])
                if hasattr(m, 'enumerate_tautomers'):
                    try:
                        before = _prim(m)
                    except Exception:
                        before = None
                try:
                    fn = OBSERVERS.get(ev[2]) or QRY_OBSERVERS[ev[2]]
                    if ev[2] in WARMABLE:
                        # the same key is evaluated on a cold copy (first) and on a copy whose cache was filled (later phases)
                        v = digest(fn(m, warm=(ev[3] != 'first')))
                    else:
                        v = digest(fn(m))
                except Exception as e:
                    v = 'EXC:' + type(e).__name__
                out.append([ev[1], ev[2], ev[3], v])
                if before is not None:
                    try:
                        after = _prim(m)
                    except Exception:
                        after = None
                    if after != before:
                        # every observer is a read: normalisers run on copies, enumerators are documented generators
                        out.append([ev[1], '_input_unchanged', ev[3], 'CHANGED-BY:' + ev[2]])
            elif k == 'flush':
                if ev[1] in live:
                    live[ev[1]].flush_cache()
            elif k == 'copy':
                if ev[1] in live:
                    copies[ev[1]] = live[ev[1]].copy()
            elif k == 'drop':
                live.pop(ev[1], None)
                copies.pop(ev[1], None)
            elif k == 'gc':
                gc.collect()
        except Exception as e:
            out.append([ev[1] if len(ev) > 1 else -1, '_event_' + k, 'error', 'EXC:' + type(e).__name__])
    with open(sys.argv[2], 'w') as f:
        json.dump({'results': out, 'junk': len(junk)}, f)


if __name__ == '__main__':
    main()
