# Shim in front of the installed CachedMethods (see DESIGN.md section 2.1).
#
# The installed CachedMethods 0.2.0 `class_cached_property.__get__` reads `obj.__dict__`
# outside its own try/except, which fails for chython's slotted `Element` objects, so no
# molecule can be built at all.  This shim loads the *real* installed module by file path
# and overrides only that one method; everything else is the genuine 0.2.0 code.
import importlib.util as _ilu
import os as _os
import sys as _sys

_here = _os.path.dirname(_os.path.abspath(__file__))
_real_init = None
for _p in _sys.path:
    if not _p:
        continue
    _cand = _os.path.join(_p, 'CachedMethods', '__init__.py')
    if _os.path.isfile(_cand) and _os.path.dirname(_os.path.abspath(_cand)) != _here:
        _real_init = _cand
        break
if _real_init is None:
    raise ImportError('real CachedMethods not found behind the shim')

_spec = _ilu.spec_from_file_location('_real_CachedMethods', _real_init)
_real = _ilu.module_from_spec(_spec)
_sys.modules['_real_CachedMethods'] = _real
_spec.loader.exec_module(_real)

_SENTINEL = _real._SENTINEL
_freeze = _real._freeze
FrozenDict = _real.FrozenDict
cached_property = _real.cached_property
cached_method = _real.cached_method
cached_args_method = _real.cached_args_method


class class_cached_property(_real.class_cached_property):
    """Same class-level cache; tolerates instances without __dict__ (slotted classes)."""

    def __get__(self, obj, cls):
        if obj is None:
            return self
        d = getattr(obj, '__dict__', None)
        if d is not None:
            value = d.get(self.name, _SENTINEL)
            if value is not _SENTINEL:
                return value
        class_cache = cls.__class_cache__.get(cls)
        if class_cache is None:
            class_cache = cls.__class_cache__[cls] = {}
        value = class_cache.get(self.name, _SENTINEL)
        if value is _SENTINEL:
            value = _freeze(self.func(obj))
            class_cache[self.name] = value
        if d is not None:
            d[self.name] = value
        return value


__all__ = ['cached_property', 'cached_method', 'cached_args_method', 'class_cached_property', 'FrozenDict']
