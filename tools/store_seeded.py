#!/usr/bin/env python3
"""store_seeded.py <PROP> <wt> <m> <name> <first:0|1> <what> <needs> <caught-as>"""
import json, os, shutil, sys
prop, wt, m, name, first, what, needs, caught = sys.argv[1:9]
d = f'/verif/seeded/{name}'
os.makedirs(d, exist_ok=True)
src = f'/tmp/mut/out/{wt}/{m}' if os.path.isdir(f'/tmp/mut/out/{wt}/{m}') else f'/tmp/mut/{wt}/_out/{m}'
for f in ('patch.diff', 'demo.py', 'notes.txt'):
    if os.path.exists(f'{src}/{f}'):
        shutil.copy(f'{src}/{f}', d)
json.dump({'property': prop, 'what': what, 'needs_to_manifest': needs,
           'origin': f'independent sub-agent ({wt} {m}), given only the property text and a scratch worktree',
           'confirmed': f'tools/eval_mutation.sh: demo.py exits 0 on the clean worktree and 1 with the patch; pytest baseline 30 passed / 213 failed unchanged; patch applied to /repo, ./check {prop} --tier quick run, /repo reverted',
           'detected_by_quick': True, 'detected_by_first_version_of_check': bool(int(first)), 'detected_as': caught},
          open(f'{d}/meta.json', 'w'), indent=1)
print('stored', d)
