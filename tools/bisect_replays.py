#!/usr/bin/env python3
"""For every replay file given, find the first commit of /repo (oldest first, from BASE) on which it no longer
fails.  Uses scratch worktrees under /tmp which are removed afterwards."""
import json, os, subprocess, sys, shutil, glob
BASE = sys.argv[1]
PROP = sys.argv[2]
files = sys.argv[3:]
commits = subprocess.check_output(['git', '-C', '/repo', 'rev-list', '--reverse', f'{BASE}~1..HEAD'], text=True).split()
wts = {}
for c in commits:
    d = f'/tmp/wt-bisect-{c[:8]}'
    if not os.path.exists(d):
        subprocess.check_call(['git', '-C', '/repo', 'worktree', 'add', '--detach', d, c], stdout=subprocess.DEVNULL, stderr=subprocess.DEVNULL)
    wts[c] = d
res = {}
try:
    for f in files:
        first_pass = None
        for c in commits:
            env = dict(os.environ, VERIF_REPO=wts[c])
            p = subprocess.run(['/verif/check', PROP, '--replay', f], capture_output=True, text=True, env=env)
            if p.returncode == 0:
                first_pass = c
                break
        t = json.load(open(f))
        msg = subprocess.check_output(['git', '-C', '/repo', 'log', '-1', '--format=%s', first_pass], text=True).strip() if first_pass else None
        print(os.path.basename(f), t['violation']['class'], [o['op'] for o in t.get('ops', [])] or t.get('fmt'), '->', first_pass and first_pass[:8], msg)
        res[f] = first_pass
finally:
    for c, d in wts.items():
        subprocess.call(['git', '-C', '/repo', 'worktree', 'remove', '--force', d])
json.dump(res, open('/tmp/bisect_result.json', 'w'))
