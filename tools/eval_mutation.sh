#!/bin/bash
# usage: eval_mutation.sh <mutation dir with patch.diff + demo.py> <worktree> <PROP> [extra check args]
# 1. confirms in the scratch worktree: demo passes without, fails with the patch; the 30 baseline tests still pass
# 2. applies the patch to /repo, runs the quick check of PROP, reverts /repo
M=$1; W=$2; P=$3; shift 3
cd $W && git checkout -q -- . && git status --short | grep -v '^??' 
PYTHONPATH=/tmp/mut/shim:$W timeout 300 /venv/bin/python $M/demo.py >/dev/null 2>&1; A=$?
git apply $M/patch.diff || { echo "APPLY FAILED"; exit 3; }
PYTHONPATH=/tmp/mut/shim:$W timeout 300 /venv/bin/python $M/demo.py >/dev/null 2>&1; B=$?
T=$(timeout 900 /venv/bin/python -m pytest -q -p no:cacheprovider --timeout=900 --continue-on-collection-errors 2>&1 | tail -1)
git checkout -q -- .
echo "demo without patch: exit $A; with patch: exit $B; tests: $T"
cd /repo && git diff --quiet || { echo "/repo dirty"; exit 4; }
git apply $M/patch.diff
cd /verif && timeout 900 ./check $P --tier quick "$@" > /tmp/eval_mut.out 2>&1; R=$?
cd /repo && git checkout -q -- .
grep -c "^VIOLATION" /tmp/eval_mut.out | sed "s/^/check exit $R; VIOLATION lines: /"
grep -A1 "^VIOLATION" /tmp/eval_mut.out | grep "class=" | cut -c1-220 | head -4
tail -1 /tmp/eval_mut.out | cut -c1-200
