#!/venv/bin/python
"""Writes /verif/golden/own_files.json: what every record of the repository's own test files denotes (atoms, bonds, stereo
labels in canonical translation), as read by the tree this tool is run on.  Run on the unchanged tree only; the file is data,
like the test files themselves, and is never written by a check."""
import json, os, sys
sys.path[:0] = ['/verif/shim', os.environ.get('VERIF_REPO', '/repo'), '/verif']
from checks.c11 import own_file_views   # noqa: E402
out = own_file_views()
json.dump(out, open('/verif/golden/own_files.json', 'w'), indent=0, sort_keys=True)
print({k: len(v) for k, v in out.items()})
