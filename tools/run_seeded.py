#!/usr/bin/env python3
"""Re-run every seeded breakage under /verif/seeded against the current quick checks.
Each patch is applied in a scratch worktree of /repo HEAD (never in /repo itself), the check runs with VERIF_REPO
pointing there, the worktree is removed.  Prints one line per breakage; exit 1 if any is no longer detected."""
import json, os, subprocess, sys, glob, shutil
only = sys.argv[1:]
missed = []
for d in sorted(glob.glob('/verif/seeded/*')):
    name = os.path.basename(d)
    if only and not any(o in name for o in only):
        continue
    meta = json.load(open(f'{d}/meta.json'))
    prop = meta['property']
    if meta.get('detected_by_quick') is False:
        print(f"{name}: not claimed ({meta.get('why_not', '')[:90]}...)", flush=True)
        continue
    wt = f'/tmp/seedwt-{os.getpid()}'
    subprocess.call(['git', '-C', '/repo', 'worktree', 'remove', '--force', wt], stderr=subprocess.DEVNULL)
    subprocess.check_call(['git', '-C', '/repo', 'worktree', 'add', '--detach', wt, 'HEAD'], stdout=subprocess.DEVNULL, stderr=subprocess.DEVNULL)
    try:
        r = subprocess.run(['git', '-C', wt, 'apply', f'{d}/patch.diff'], capture_output=True, text=True)
        if r.returncode:
            print(f'{name}: PATCH DOES NOT APPLY to current HEAD: {r.stderr.strip()[:120]}')
            missed.append(name)
            continue
        env = dict(os.environ, VERIF_REPO=wt, VERIF_WORKERS=os.environ.get('VERIF_WORKERS', '8'))
        p = subprocess.run(['/verif/check', prop, '--tier', 'quick', '--no-confirm'], capture_output=True, text=True, env=env, timeout=1800)
        cls = [l.strip()[:110] for l in p.stdout.splitlines() if l.strip().startswith('class=')][:1]
        ok = p.returncode == 1 and 'VIOLATION' in p.stdout
        print(f"{name}: {'detected' if ok else 'MISSED (exit %d)' % p.returncode} {cls[0] if cls else ''}", flush=True)
        if not ok:
            missed.append(name)
    finally:
        subprocess.call(['git', '-C', '/repo', 'worktree', 'remove', '--force', wt], stderr=subprocess.DEVNULL)
print('missed:', missed)
sys.exit(1 if missed else 0)
